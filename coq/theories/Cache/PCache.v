(* Cache/PCache.v - executable model of /repo/internal/caching/pcache.go

   _ProgramMap : open addressing, linear probing, mask arithmetic, rehash (doubling) when the load
   factor would be exceeded, and the RCU ProgramCache on top of it (sequential view: Get / Compute).

   Transcription rules
   * a type descriptor `vt *rt.GoType` is a key `N`; 0 is the nil pointer.  `vt.Hash` (a uint32 field of the
     descriptor) is the section variable `hash`, an ARBITRARY function of the key: collisions are adversarial.
   * a program `fn interface{}` is a value `N`; 0 is nil.
   * `uint32` arithmetic is written with explicit wrap (`u32`); the theorems show under which bound it never wraps.
   * `f := float64(n+1)/float64(m+1); f > _LoadFactor` is the exact rational comparison
     lf_den*(n+1) > lf_num*(m+1)  (exact: both operands are integers below 2^53 and _LoadFactor = lf_num/lf_den is
     a dyadic constant; lf_num, lf_den come from Gen/CacheConsts.v, i.e. from the source, on every run).
   * a Go panic (index out of range, "no available slots") is `None`.
   * `copy` allocates a new bucket array and copies every slot, as the source does. *)
From Coq Require Import NArith List Bool Lia FMapPositive.
Import ListNotations.
Open Scope N_scope.

Definition u32 (x : N) : N := x mod 2 ^ 32.

Record entry := mkE { e_vt : N; e_fn : N }.
Definition emptyE : entry := mkE 0 0.

(* ---- the bucket array `b []_ProgramEntry`: a length and a finite map index -> entry (zero value = emptyE).
   (A binary trie rather than a Coq list so that the extracted model indexes in O(log len); every proof uses
   only the laws slot_make / slot_upd / len_upd proved in PCacheProofs.v.) *)
Record arr := mkArr { a_len : N; a_map : PositiveMap.t entry }.

Definition make (c : N) : arr := mkArr c (PositiveMap.empty entry).

Definition slot (b : arr) (p : N) : entry :=
  if p <? a_len b then
    match PositiveMap.find (N.succ_pos p) (a_map b) with Some e => e | None => emptyE end
  else emptyE.

Definition upd (p : N) (e : entry) (b : arr) : arr :=
  if p <? a_len b then mkArr (a_len b) (PositiveMap.add (N.succ_pos p) e (a_map b)) else b.

(* the indices 0 .. c-1 *)
Fixpoint range_from (start : N) (count : nat) : list N :=
  match count with
  | O => []
  | S c => start :: range_from (start + 1) c
  end.
Definition range (c : N) : list N := range_from 0 (N.to_nat c).

(* type _ProgramMap struct { n uint64; m uint32; b []_ProgramEntry } *)
Record pmap := mkM { pm_n : N; pm_m : N; pm_b : arr }.

Section WithHash.
Variable hash : N -> N.              (* vt.Hash *)
Variables lf_num lf_den : N.         (* _LoadFactor = lf_num / lf_den *)

(* newProgramMap with capacity `c` (the source uses _InitCapacity) *)
Definition newProgramMap (c : N) : pmap :=
  mkM 0 (u32 (c + 2 ^ 32 - 1)) (make c).

(* fork.b = make(len(self.b)); for i, f := range self.b { fork.b[i] = f } *)
Definition copy_arr (b : arr) : arr :=
  fold_left (fun fork i => upd i (slot b i) fork) (range (a_len b)) (make (a_len b)).

Definition copy (s : pmap) : pmap := mkM (pm_n s) (pm_m s) (copy_arr (pm_b s)).

(* func (self *_ProgramMap) get(vt) : i := m+1; p := vt.Hash & m; for ; i > 0; i-- {...} *)
Fixpoint get_loop (i : nat) (m : N) (b : arr) (vt p : N) : N :=
  match i with
  | O => 0
  | S i' =>
      let e := slot b p in
      if e_vt e =? vt then e_fn e
      else if e_vt e =? 0 then 0
      else get_loop i' m b vt (N.land (u32 (p + 1)) m)
  end.

Definition get (s : pmap) (vt : N) : N :=
  get_loop (N.to_nat (u32 (pm_m s + 1))) (pm_m s) (pm_b s) vt (N.land (u32 (hash vt)) (pm_m s)).

(* func (self *_ProgramMap) insert(vt, fn) :
   for i := 0; i <= m; i++ { if b[p].vt != nil { p = (p+1)&m } else {store; n++; return} }; panic *)
Fixpoint insert_loop (i : nat) (m : N) (b : arr) (vt fn p : N) : option arr :=
  match i with
  | O => None
  | S i' =>
      if p <? a_len b then
        if negb (e_vt (slot b p) =? 0) then insert_loop i' m b vt fn (N.land (u32 (p + 1)) m)
        else Some (upd p (mkE vt fn) b)
      else None
  end.

Definition insert (s : pmap) (vt fn : N) : option pmap :=
  match insert_loop (N.to_nat (pm_m s + 1)) (pm_m s) (pm_b s) vt fn (N.land (u32 (hash vt)) (pm_m s)) with
  | Some b' => Some (mkM (pm_n s + 1) (pm_m s) b')
  | None => None
  end.

Definition rehash_step (acc : option pmap) (e : entry) : option pmap :=
  match acc with
  | None => None
  | Some r => if negb (e_vt e =? 0) then insert r (e_vt e) (e_fn e) else Some r
  end.

(* c := (m+1) << 1; r := {m: c-1, b: make(c)}; for i := 0; i <= m; i++ { if b[i].vt != nil { r.insert(...) } } *)
Definition rehash (s : pmap) : option pmap :=
  let c := u32 (u32 (pm_m s + 1) * 2) in
  if a_len (pm_b s) <? pm_m s + 1 then None
  else fold_left rehash_step (map (slot (pm_b s)) (range (pm_m s + 1))) (Some (newProgramMap c)).

(* func (self *_ProgramMap) add(vt, fn) *_ProgramMap *)
Definition add (s : pmap) (vt fn : N) : option pmap :=
  let p := copy s in
  let p' := if lf_num * u32 (pm_m p + 1) <? lf_den * (pm_n p + 1) then rehash p else Some p in
  match p' with
  | Some q => insert q vt fn
  | None => None
  end.

(* ---- RCU program cache, sequential view.  The cache state is the published map. *)
Definition Get (c : pmap) (vt : N) : N := get c vt.

(* Compute(vt, compute): `res` is what the compute callback returns for vt: Some fn, or None for an error.
   Result: new published map and (value, error?) *)
Definition Compute (c : pmap) (vt : N) (res : option N) : option (pmap * option N) :=
  let val := get c vt in
  if negb (val =? 0) then Some (c, Some val)
  else match res with
       | None => Some (c, None)
       | Some v => match add c vt v with
                   | Some c' => Some (c', Some v)
                   | None => None
                   end
       end.

End WithHash.

(* ---- operation sequences (what the correspondence run drives on the real code) *)
Inductive op :=
| OGet (k : N)                       (* ProgramCache.Get / _ProgramMap.get *)
| OCompute (k : N) (res : option N)  (* ProgramCache.Compute *)
| OAdd (k v : N).                    (* raw _ProgramMap.add (no presence check) *)

Inductive res :=
| RVal (v : N)          (* value returned (0 = nil) *)
| RErr                  (* Compute returned the callback's error *)
| RPanic.

Section Run.
Variable hash : N -> N.
Variables lf_num lf_den : N.

Definition step (st : option pmap) (o : op) : option pmap * res :=
  match st with
  | None => (None, RPanic)
  | Some c =>
      match o with
      | OGet k => (Some c, RVal (Get hash c k))
      | OCompute k r =>
          match Compute hash lf_num lf_den c k r with
          | Some (c', Some v) => (Some c', RVal v)
          | Some (c', None) => (Some c', RErr)
          | None => (None, RPanic)
          end
      | OAdd k v =>
          match add hash lf_num lf_den c k v with
          | Some c' => (Some c', RVal v)
          | None => (None, RPanic)
          end
      end
  end.

Fixpoint run (st : option pmap) (ops : list op) : option pmap * list res :=
  match ops with
  | [] => (st, [])
  | o :: r => let '(st', x) := step st o in
              let '(st'', xs) := run st' r in (st'', x :: xs)
  end.

End Run.
