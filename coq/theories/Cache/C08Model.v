(* Cache/C08Model.v - executable entry points of the C08 correspondence run (Cache/Rcu.v with the regenerated constants). *)
From Coq Require Import NArith List.
From SV.Gen Require Import CacheConsts.
From SV.Cache Require Import PCache Rcu.
Open Scope N_scope.

Definition rcu_run (hash : N -> N) (compute : N -> option N) (c : N) (calls : list call) (sched : list nat) : gstate :=
  exec hash LoadFactor_num LoadFactor_den compute (init c calls) sched.
Definition rcu_default_cap : N := InitCapacity.
Definition rcu_present (hash : N -> N) (g : gstate) (k : N) : N := Get hash (g_p g) k.
