(* Cache/PCacheInv.v - the representation invariant of the open-addressing table of Cache/PCache.v and its
   preservation by insert / rehash / copy / add, for an arbitrary hash function. *)
From Coq Require Import NArith Arith List Bool Lia.
From SV.Cache Require Import PCache PCacheArr PCacheProbe.
Import ListNotations.
Open Scope N_scope.

Section Inv.
Variable hash : N -> N.

Definition home (e k : N) : N := N.land (u32 (hash k)) (N.ones e).

(* well-formed bucket array of capacity 2^e:
   - every key sits in at most one slot,
   - every occupied slot is reachable from the home slot of its key through occupied slots only, in < cap steps *)
Record wfb (e : N) (b : arr) : Prop := {
  wf_len : a_len b = 2 ^ e;
  wf_uniq : forall p q, e_vt (slot b p) <> 0 -> e_vt (slot b p) = e_vt (slot b q) -> p = q;
  wf_path : forall p, e_vt (slot b p) <> 0 ->
    exists j, (j < N.to_nat (2 ^ e))%nat /\ it (N.ones e) j (home e (e_vt (slot b p))) = p /\
              forall i, (i < j)%nat -> e_vt (slot b (it (N.ones e) i (home e (e_vt (slot b p))))) <> 0
}.

Lemma wfb_ext e b b' : wfb e b -> a_len b' = a_len b -> (forall q, slot b' q = slot b q) -> wfb e b'.
Proof.
  intros [Hl Hu Hp] Hlen Hs. constructor.
  - congruence.
  - intros p q. rewrite !Hs. apply Hu.
  - intros p. rewrite Hs. intros Hne. destruct (Hp p Hne) as [j [Hj [Hit Hpath]]].
    exists j. split; [assumption|]. split; [assumption|]. intros i Hi. rewrite Hs. now apply Hpath.
Qed.

Lemma wfb_make e : wfb e (make (2 ^ e)).
Proof.
  constructor.
  - reflexivity.
  - intros p q H. rewrite slot_make in H. cbn in H. congruence.
  - intros p H. rewrite slot_make in H. cbn in H. congruence.
Qed.

Lemma get_present e b n p k v :
  wfb e b -> e <= 31 -> slot b p = mkE k v -> k <> 0 -> get hash (mkM n (N.ones e) b) k = v.
Proof.
  intros [Hl Hu Hp] He Hs Hk. unfold get. cbn [pm_m pm_b]. rewrite u32_cap by assumption.
  assert (Hne : e_vt (slot b p) <> 0) by (rewrite Hs; exact Hk).
  destruct (Hp p Hne) as [j [Hj [Hit Hpath]]]. rewrite Hs in Hit, Hpath. cbn [e_vt] in Hit, Hpath.
  fold (home e k). set (h := home e k) in *.
  destruct (first_index (fun i => e_vt (slot b (it (N.ones e) i h)) =? k) j) as [j' [Hle [Hj' Hmin]]].
  { rewrite Hit, Hs. cbn. apply N.eqb_refl. }
  apply N.eqb_eq in Hj'.
  assert (Hsame : it (N.ones e) j' h = p).
  { apply Hu; [rewrite Hj'; exact Hk|]. rewrite Hj', Hs. reflexivity. }
  apply (get_loop_found (N.ones e) b k v j'); [lia| |].
  - intros i Hi. split.
    + specialize (Hmin i Hi). cbn in Hmin. now apply N.eqb_neq in Hmin.
    + apply Hpath. lia.
  - rewrite Hsame. exact Hs.
Qed.

Lemma get_absent e b n k :
  (forall p, e_vt (slot b p) <> k) -> get hash (mkM n (N.ones e) b) k = 0.
Proof.
  intros H. unfold get. apply get_loop_absent. intros p Hp. exfalso. exact (H p Hp).
Qed.

(* the fuel of the probe loop is never what ends it: any larger bound gives the same answer *)
Lemma get_loop_fuel_irrelevant e b p k v d :
  wfb e b -> e <= 31 -> slot b p = mkE k v -> k <> 0 ->
  get_loop (N.to_nat (2 ^ e) + d) (N.ones e) b k (home e k) = get_loop (N.to_nat (2 ^ e)) (N.ones e) b k (home e k).
Proof.
  intros [Hl Hu Hp] He Hs Hk.
  assert (Hne : e_vt (slot b p) <> 0) by (rewrite Hs; exact Hk).
  destruct (Hp p Hne) as [j [Hj [Hit Hpath]]]. rewrite Hs in Hit, Hpath. cbn [e_vt] in Hit, Hpath.
  set (h := home e k) in *.
  destruct (first_index (fun i => e_vt (slot b (it (N.ones e) i h)) =? k) j) as [j' [Hle [Hj' Hmin]]].
  { rewrite Hit, Hs. cbn. apply N.eqb_refl. }
  apply N.eqb_eq in Hj'.
  assert (Hsame : it (N.ones e) j' h = p).
  { apply Hu; [rewrite Hj'; exact Hk|]. rewrite Hj', Hs. reflexivity. }
  assert (Hpre : forall i, (i < j')%nat -> e_vt (slot b (it (N.ones e) i h)) <> k /\ e_vt (slot b (it (N.ones e) i h)) <> 0).
  { intros i Hi. split; [specialize (Hmin i Hi); cbn in Hmin; now apply N.eqb_neq in Hmin|apply Hpath; lia]. }
  rewrite (get_loop_found (N.ones e) b k v j' _ h); [|lia|exact Hpre|rewrite Hsame; exact Hs].
  rewrite (get_loop_found (N.ones e) b k v j' _ h); [reflexivity|lia|exact Hpre|rewrite Hsame; exact Hs].
Qed.

(* insert into a well-formed table that has a free slot and does not hold the key *)
Lemma insert_wfb e b n k v :
  wfb e b -> e <= 31 -> k <> 0 -> (forall p, e_vt (slot b p) <> k) ->
  (exists q, q < 2 ^ e /\ e_vt (slot b q) = 0) ->
  exists ps, ps < 2 ^ e /\ e_vt (slot b ps) = 0 /\
    insert hash (mkM n (N.ones e) b) k v = Some (mkM (n + 1) (N.ones e) (upd ps (mkE k v) b)) /\
    wfb e (upd ps (mkE k v) b).
Proof.
  intros Hwf He Hk Habs [q [Hq Hqz]]. destruct Hwf as [Hl Hu Hp].
  set (h := home e k). assert (Hh : h < 2 ^ e) by apply home_lt.
  destruct (it_surj e h q He Hh Hq) as [j [Hj Hitj]].
  destruct (first_index (fun i => e_vt (slot b (it (N.ones e) i h)) =? 0) j) as [j0 [Hle [Hj0 Hmin]]].
  { rewrite Hitj, Hqz. reflexivity. }
  apply N.eqb_eq in Hj0. set (ps := it (N.ones e) j0 h) in *.
  assert (Hps : ps < 2 ^ e) by (apply it_lt; exact Hh).
  assert (Hpre : forall i, (i < j0)%nat -> e_vt (slot b (it (N.ones e) i h)) <> 0).
  { intros i Hi. specialize (Hmin i Hi). cbn in Hmin. now apply N.eqb_neq in Hmin. }
  assert (Hslot : forall x, slot (upd ps (mkE k v) b) x = if x =? ps then mkE k v else slot b x).
  { intros x. rewrite slot_upd. destruct (N.ltb_spec ps (a_len b)); [|lia]. now rewrite andb_true_r. }
  assert (Hmono : forall y, e_vt (slot b y) <> 0 -> e_vt (slot (upd ps (mkE k v) b) y) <> 0).
  { intros y Hy. rewrite Hslot. destruct (y =? ps); [exact Hk|exact Hy]. }
  exists ps. split; [exact Hps|]. split; [exact Hj0|]. split.
  - unfold insert. cbn [pm_m pm_b pm_n]. rewrite ones_succ. fold (home e k). fold h.
    rewrite (insert_loop_first (N.ones e) b k v j0 _ h); [reflexivity|lia|exact Hpre|exact Hj0|].
    intros i _. rewrite Hl. apply it_lt. exact Hh.
  - constructor.
    + rewrite len_upd. exact Hl.
    + intros x y. rewrite !Hslot.
      destruct (N.eqb_spec x ps) as [->|Hx]; destruct (N.eqb_spec y ps) as [->|Hy]; cbn [e_vt].
      * reflexivity.
      * intros _ E. exfalso. exact (Habs y (eq_sym E)).
      * intros _ E. exfalso. exact (Habs x E).
      * apply Hu.
    + intros x. rewrite Hslot. destruct (N.eqb_spec x ps) as [->|Hx]; cbn [e_vt].
      * intros _. exists j0. split; [lia|]. split; [reflexivity|].
        intros i Hi. apply Hmono. apply Hpre. exact Hi.
      * intros Hne. destruct (Hp x Hne) as [jx [Hjx [Hitx Hpathx]]].
        exists jx. split; [exact Hjx|]. split; [exact Hitx|].
        intros i Hi. apply Hmono. apply Hpathx. exact Hi.
Qed.

(* ---- invariant of a whole _ProgramMap against the finite map f (0 = absent; stored values are non-nil) *)
Record inv (e : N) (f : N -> N) (s : pmap) : Prop := {
  i_m : pm_m s = N.ones e;
  i_e : e <= 31;
  i_wf : wfb e (pm_b s);
  i_n : pm_n s = N.of_nat (occ (slot (pm_b s)) (N.to_nat (2 ^ e)));
  i_pres : forall k, k <> 0 -> f k <> 0 -> exists p, slot (pm_b s) p = mkE k (f k);
  i_abs : forall k, k <> 0 -> f k = 0 -> forall p, e_vt (slot (pm_b s) p) <> k
}.

Lemma inv_ext e f s s' :
  inv e f s -> pm_m s' = pm_m s -> pm_n s' = pm_n s -> a_len (pm_b s') = a_len (pm_b s) ->
  (forall q, slot (pm_b s') q = slot (pm_b s) q) -> inv e f s'.
Proof.
  intros [Hm He Hwf Hn Hpr Hab] Em En El Es. constructor.
  - congruence.
  - exact He.
  - exact (wfb_ext e _ _ Hwf El Es).
  - rewrite En, Hn. f_equal. apply occ_ext. intros i _. symmetry. apply Es.
  - intros k Hk Hf. destruct (Hpr k Hk Hf) as [p Hp]. exists p. now rewrite Es.
  - intros k Hk Hf p. rewrite Es. now apply Hab.
Qed.

Lemma inv_copy e f s : inv e f s -> inv e f (copy s).
Proof.
  intros H. apply (inv_ext e f s); [exact H|reflexivity|reflexivity| |]; cbn [copy pm_b].
  - apply copy_arr_len.
  - apply copy_arr_slot.
Qed.

Lemma inv_get e f s k : inv e f s -> k <> 0 -> get hash s k = f k.
Proof.
  intros [Hm He Hwf Hn Hpr Hab] Hk. destruct s as [n m b]. cbn [pm_m pm_b pm_n] in *. subst m.
  destruct (N.eq_dec (f k) 0) as [Hz|Hnz].
  - rewrite Hz. apply get_absent. now apply Hab.
  - destruct (Hpr k Hk Hnz) as [p Hp]. now apply (get_present e b n p).
Qed.

Definition fupd (f : N -> N) (k v : N) : N -> N := fun x => if x =? k then v else f x.

Lemma occ_after_upd b c ps en :
  ps < N.of_nat c -> ps < a_len b -> e_vt (slot b ps) = 0 -> e_vt en <> 0 ->
  occ (slot (upd ps en b)) c = S (occ (slot b) c).
Proof.
  intros Hc Hl Hz Hne. apply (occ_upd _ _ c (N.to_nat ps) en).
  - lia.
  - now rewrite N2Nat.id.
  - exact Hne.
  - intros q. rewrite N2Nat.id, slot_upd. destruct (N.ltb_spec ps (a_len b)); [|lia]. now rewrite andb_true_r.
Qed.

Lemma inv_insert e f s k v :
  inv e f s -> k <> 0 -> v <> 0 -> f k = 0 -> pm_n s < 2 ^ e ->
  exists s', insert hash s k v = Some s' /\ inv e (fupd f k v) s' /\ pm_n s' = pm_n s + 1.
Proof.
  intros [Hm He Hwf Hn Hpr Hab] Hk Hv Hf Hlt. destruct s as [n m b]. cbn [pm_m pm_b pm_n] in *. subst m.
  assert (Hfree : exists q, q < 2 ^ e /\ e_vt (slot b q) = 0).
  { destruct (occ_lt_exists (slot b) (N.to_nat (2 ^ e))) as [i [Hi Hz]]; [lia|].
    exists (N.of_nat i). split; [lia|exact Hz]. }
  destruct (insert_wfb e b n k v Hwf He Hk (Hab k Hk Hf) Hfree) as [ps [Hps [Hz [Hins Hwf']]]].
  assert (Hlen : a_len b = 2 ^ e) by apply Hwf.
  assert (Hslot : forall x, slot (upd ps (mkE k v) b) x = if x =? ps then mkE k v else slot b x).
  { intros x. rewrite slot_upd. destruct (N.ltb_spec ps (a_len b)); [|lia]. now rewrite andb_true_r. }
  eexists. split; [exact Hins|]. split; [|reflexivity]. constructor; cbn [pm_m pm_b pm_n].
  - reflexivity.
  - exact He.
  - exact Hwf'.
  - rewrite occ_after_upd; [lia|lia|lia|exact Hz|exact Hk].
  - intros x Hx. unfold fupd. destruct (N.eqb_spec x k) as [->|Hne]; intros Hfx.
    + exists ps. now rewrite slot_upd_same by lia.
    + destruct (Hpr x Hx Hfx) as [p Hp]. exists p. rewrite Hslot.
      destruct (N.eqb_spec p ps) as [->|]; [|exact Hp]. rewrite Hp in Hz. cbn in Hz. congruence.
  - intros x Hx. unfold fupd. destruct (N.eqb_spec x k) as [->|Hne]; intros Hfx p; [congruence|].
    rewrite Hslot. destruct (p =? ps); cbn [e_vt]; [congruence|]. now apply Hab.
Qed.

(* ---- rehash *)
Definition count_ne (b : arr) (l : list N) : nat :=
  length (filter (fun i => negb (e_vt (slot b i) =? 0)) l).

Lemma count_ne_le b l : (count_ne b l <= length l)%nat.
Proof.
  unfold count_ne. induction l as [|x l IH]; cbn [filter length]; [lia|].
  destruct (negb _); cbn [length]; lia.
Qed.

Lemma count_ne_app b l1 l2 : count_ne b (l1 ++ l2) = (count_ne b l1 + count_ne b l2)%nat.
Proof. unfold count_ne. now rewrite filter_app, app_length. Qed.

Lemma range_from_snoc n : forall s, range_from s (S n) = range_from s n ++ [s + N.of_nat n].
Proof.
  induction n as [|n IH]; intros s.
  - cbn. now rewrite N.add_0_r.
  - change (range_from s (S (S n))) with (s :: range_from (s + 1) (S n)). rewrite IH.
    cbn [range_from app]. do 2 f_equal. f_equal. lia.
Qed.

Lemma count_ne_range b c : count_ne b (range_from 0 c) = occ (slot b) c.
Proof.
  induction c as [|c IH]; [reflexivity|].
  rewrite range_from_snoc, count_ne_app, IH. cbn [occ]. rewrite N.add_0_l.
  unfold count_ne. cbn [filter]. destruct (e_vt (slot b (N.of_nat c)) =? 0); cbn; lia.
Qed.

(* state of the rebuild loop after the indices `done` of the old array b have been visited *)
Record rinv (e' : N) (b : arr) (done : list N) (r : pmap) : Prop := {
  r_m : pm_m r = N.ones e';
  r_wf : wfb e' (pm_b r);
  r_n : pm_n r = N.of_nat (occ (slot (pm_b r)) (N.to_nat (2 ^ e')));
  r_cnt : pm_n r = N.of_nat (count_ne b done);
  r_from : forall p', e_vt (slot (pm_b r) p') <> 0 -> exists i, In i done /\ slot b i = slot (pm_b r) p';
  r_to : forall i, In i done -> e_vt (slot b i) <> 0 -> exists p', slot (pm_b r) p' = slot b i
}.

Lemma rehash_step_ok e' b done r i :
  rinv e' b done r -> e' <= 31 -> ~ In i done ->
  (forall p q, e_vt (slot b p) <> 0 -> e_vt (slot b p) = e_vt (slot b q) -> p = q) ->
  N.of_nat (length done) < 2 ^ e' ->
  exists r', rehash_step hash (Some r) (slot b i) = Some r' /\ rinv e' b (done ++ [i]) r'.
Proof.
  intros [Hm Hwf Hn Hc Hfrom Hto] He Hni Huniq Hspace. unfold rehash_step.
  destruct (N.eqb_spec (e_vt (slot b i)) 0) as [Hz|Hnz]; cbn [negb].
  - exists r. split; [reflexivity|]. constructor; try assumption.
    + rewrite count_ne_app. unfold count_ne at 2. cbn [filter]. rewrite Hz. cbn. rewrite Nat.add_0_r. exact Hc.
    + intros p' Hp'. destruct (Hfrom p' Hp') as [i0 [Hi0 E]]. exists i0. split; [apply in_or_app; now left|exact E].
    + intros i0 Hi0 Hne. apply in_app_or in Hi0. destruct Hi0 as [Hi0|[<-|[]]]; [now apply Hto|congruence].
  - destruct r as [n m rb]. cbn [pm_m pm_b pm_n] in *. subst m.
    destruct (slot b i) as [k v] eqn:Ei. cbn [e_vt e_fn] in *.
    assert (Habs : forall p, e_vt (slot rb p) <> k).
    { intros p Hp. destruct (Hfrom p) as [i0 [Hi0 E]]; [congruence|].
      assert (i0 = i); [|congruence]. apply Huniq.
      - rewrite E, Hp. exact Hnz.
      - rewrite E, Hp, Ei. reflexivity. }
    assert (Hfree : exists q, q < 2 ^ e' /\ e_vt (slot rb q) = 0).
    { pose proof (count_ne_le b done).
      destruct (occ_lt_exists (slot rb) (N.to_nat (2 ^ e'))) as [x [Hx Hxz]]; [lia|].
      exists (N.of_nat x). split; [lia|exact Hxz]. }
    destruct (insert_wfb e' rb n k v Hwf He Hnz Habs Hfree) as [ps [Hps [Hz [Hins Hwf']]]].
    assert (Hlen : a_len rb = 2 ^ e') by apply Hwf.
    assert (Hslot : forall x, slot (upd ps (mkE k v) rb) x = if x =? ps then mkE k v else slot rb x).
    { intros x. rewrite slot_upd. destruct (N.ltb_spec ps (a_len rb)); [|lia]. now rewrite andb_true_r. }
    eexists. split; [exact Hins|]. constructor; cbn [pm_m pm_b pm_n].
    + reflexivity.
    + exact Hwf'.
    + rewrite occ_after_upd; [lia|lia|lia|exact Hz|exact Hnz].
    + rewrite count_ne_app. unfold count_ne at 2. cbn [filter]. rewrite Ei. cbn [e_vt].
      destruct (N.eqb_spec k 0); [congruence|]. cbn. lia.
    + intros p'. rewrite Hslot. destruct (N.eqb_spec p' ps) as [->|Hne].
      * intros _. exists i. split; [apply in_or_app; right; now left|exact Ei].
      * intros Hp'. destruct (Hfrom p' Hp') as [i0 [Hi0 E]]. exists i0. split; [apply in_or_app; now left|exact E].
    + intros i0 Hi0 Hne. apply in_app_or in Hi0. destruct Hi0 as [Hi0|[<-|[]]].
      * destruct (Hto i0 Hi0 Hne) as [p' Hp']. exists p'. rewrite Hslot.
        destruct (N.eqb_spec p' ps) as [->|]; [|exact Hp']. rewrite Hp' in Hz. congruence.
      * exists ps. rewrite Ei. now rewrite slot_upd_same by lia.
Qed.

Lemma rehash_fold_ok e' b :
  e' <= 31 ->
  (forall p q, e_vt (slot b p) <> 0 -> e_vt (slot b p) = e_vt (slot b q) -> p = q) ->
  forall l done r, rinv e' b done r -> NoDup (done ++ l) -> N.of_nat (length (done ++ l)) < 2 ^ e' ->
  exists r', fold_left (rehash_step hash) (map (slot b) l) (Some r) = Some r' /\ rinv e' b (done ++ l) r'.
Proof.
  intros He Huniq. induction l as [|i l IH]; intros done r Hr Hnd Hsp.
  - exists r. split; [reflexivity|]. now rewrite app_nil_r.
  - cbn [map fold_left].
    assert (Hni : ~ In i done).
    { apply NoDup_remove_2 in Hnd. intros Hin. apply Hnd. apply in_or_app. now left. }
    assert (Hsp1 : N.of_nat (length done) < 2 ^ e').
    { rewrite app_length in Hsp. cbn [length] in Hsp. lia. }
    destruct (rehash_step_ok e' b done r i Hr He Hni Huniq Hsp1) as [r1 [E1 Hr1]].
    rewrite E1. replace (done ++ i :: l) with ((done ++ [i]) ++ l) in * by (rewrite <- app_assoc; reflexivity).
    apply IH; assumption.
Qed.

Lemma newmap_mask e' : e' <= 31 -> u32 (2 ^ e' + 2 ^ 32 - 1) = N.ones e'.
Proof.
  intros He. pose proof (pow2_pos e'). pose proof (pow2_le_31 e' He).
  assert (2 ^ 31 < 2 ^ 32) by (vm_compute; reflexivity).
  unfold u32. replace (2 ^ e' + 2 ^ 32 - 1) with (N.pred (2 ^ e') + 1 * 2 ^ 32) by lia.
  rewrite N.mod_add by (vm_compute; discriminate). rewrite N.ones_equiv. apply N.mod_small. lia.
Qed.

Lemma rinv_new e' b : e' <= 31 -> rinv e' b [] (newProgramMap (2 ^ e')).
Proof.
  intros He. unfold newProgramMap. constructor; cbn [pm_m pm_b pm_n].
  - now apply newmap_mask.
  - apply wfb_make.
  - rewrite occ_empty; [reflexivity|]. intros q. now rewrite slot_make.
  - reflexivity.
  - intros p' H. rewrite slot_make in H. cbn in H. congruence.
  - intros i [].
Qed.

Lemma inv_rehash e f s :
  inv e f s -> e < 31 ->
  exists s', rehash hash s = Some s' /\ inv (e + 1) f s' /\ pm_n s' = pm_n s.
Proof.
  intros [Hm He Hwf Hn Hpr Hab] Hlt. destruct s as [n m b]. cbn [pm_m pm_b pm_n] in *. subst m.
  assert (Hlen : a_len b = 2 ^ e) by apply Hwf.
  assert (He' : e + 1 <= 31) by lia.
  assert (Hpow : 2 ^ (e + 1) = 2 ^ e * 2) by (rewrite N.pow_add_r; reflexivity).
  pose proof (pow2_pos e) as Hpos. pose proof (pow2_le_31 (e + 1) He') as Hle31.
  assert (H3132 : 2 ^ 31 < 2 ^ 32) by (vm_compute; reflexivity).
  unfold rehash. cbn [pm_m pm_b]. rewrite u32_cap by assumption. rewrite ones_succ.
  rewrite (u32_small (2 ^ e * 2)) by lia. rewrite <- Hpow.
  destruct (N.ltb_spec (a_len b) (2 ^ e)); [lia|].
  destruct (rehash_fold_ok (e + 1) b He' (wf_uniq e b Hwf) (range (2 ^ e)) [] _ (rinv_new (e + 1) b He'))
    as [r [Efold Hr]].
  { apply nodup_range. }
  { cbn [app]. rewrite length_range. lia. }
  cbn [app] in Hr. destruct Hr as [Rm Rwf Rn Rc Rfrom Rto].
  exists r. split; [exact Efold|]. split.
  - constructor.
    + exact Rm.
    + exact He'.
    + exact Rwf.
    + exact Rn.
    + intros k Hk Hf. destruct (Hpr k Hk Hf) as [p Hp].
      assert (Hin : In p (range (2 ^ e))).
      { apply in_range. rewrite <- Hlen. apply slot_nonempty_lt. rewrite Hp. exact Hk. }
      destruct (Rto p Hin) as [p' Hp']; [rewrite Hp; exact Hk|]. exists p'. now rewrite Hp'.
    + intros k Hk Hf p' E.
      destruct (Rfrom p') as [i [_ Ei]]; [congruence|].
      apply (Hab k Hk Hf i). now rewrite Ei.
  - rewrite Rc, Hn. f_equal. unfold range. apply count_ne_range.
Qed.

End Inv.
