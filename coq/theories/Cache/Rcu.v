(* Cache/Rcu.v - ProgramCache.Get / ProgramCache.Compute of /repo/internal/caching/pcache.go as small-step
   thread programs over the shared state {p : published map; m : mutex}, run by an ARBITRARY scheduler.

     func (self *ProgramCache) Get(vt) interface{} {
         return ( *_ProgramMap)(atomic.LoadPointer(&self.p)).get(vt)            G0: load      G1: probe the snapshot
     }
     func (self *ProgramCache) Compute(vt, compute, ex...) (interface{}, error) {
         self.m.Lock(); defer self.m.Unlock()                                      C0: lock
         if val = self.Get(vt); val != nil { return val, nil }                     C1: load      C2: probe, branch
         if val, err = compute(vt, ex...); err != nil { return nil, err }          C3: compute
         atomic.StorePointer(&self.p, ( *_ProgramMap)(atomic.LoadPointer(&self.p)).add(vt, val))
                                                                                   C4: load + add (copy-on-write)   C5: store
         return val, nil                                                           C6: unlock (deferred)
     }

   A published map is never written again (add copies first), so a probe of a snapshot is one step.
   Each call is its own thread (a thread issuing several calls in sequence has fewer interleavings, all included).
   `compute` is a deterministic function of the type: Some fn (non-nil) or None (compilation error). *)
From Coq Require Import NArith Arith List Bool Lia.
From SV.Cache Require Import PCache.
Import ListNotations.
Open Scope N_scope.

Inductive tstate :=
| TIdle                              (* no call *)
| G0 (k : N) | G1 (k : N) (s : pmap)
| C0 (k : N) | C1 (k : N) | C2 (k : N) (s : pmap) | C3 (k : N)
| C4 (k v : N) | C5 (k v : N) (new : pmap) | C6 (k : N) (r : option N)
| DoneG (k : N) (v : N)              (* Get returned v (0 = nil) *)
| DoneC (k : N) (r : option N)       (* Compute returned r: Some fn, or None = the error of the compile callback *)
| Crashed (k : N).                   (* a panic inside add *)

Record gstate := mkG {
  g_p : pmap;                        (* atomically published map *)
  g_mu : option nat;                 (* mutex owner *)
  g_th : nat -> tstate;
  g_log : list N                     (* ghost: keys for which the compile callback returned a program *)
}.

Definition set_th (th : nat -> tstate) (t : nat) (x : tstate) : nat -> tstate :=
  fun t' => if Nat.eqb t' t then x else th t'.

Section Rcu.
Variable hash : N -> N.
Variables lf_num lf_den : N.
Variable compute : N -> option N.

Definition step (g : gstate) (t : nat) : gstate :=
  let th := g_th g in
  match th t with
  | TIdle | DoneG _ _ | DoneC _ _ | Crashed _ => g
  | G0 k => mkG (g_p g) (g_mu g) (set_th th t (G1 k (g_p g))) (g_log g)
  | G1 k s => mkG (g_p g) (g_mu g) (set_th th t (DoneG k (get hash s k))) (g_log g)
  | C0 k => match g_mu g with
            | None => mkG (g_p g) (Some t) (set_th th t (C1 k)) (g_log g)
            | Some _ => g                                        (* blocked *)
            end
  | C1 k => mkG (g_p g) (g_mu g) (set_th th t (C2 k (g_p g))) (g_log g)
  | C2 k s => let val := get hash s k in
              if negb (val =? 0) then mkG (g_p g) (g_mu g) (set_th th t (C6 k (Some val))) (g_log g)
              else mkG (g_p g) (g_mu g) (set_th th t (C3 k)) (g_log g)
  | C3 k => match compute k with
            | None => mkG (g_p g) (g_mu g) (set_th th t (C6 k None)) (g_log g)
            | Some v => mkG (g_p g) (g_mu g) (set_th th t (C4 k v)) (k :: g_log g)
            end
  | C4 k v => match add hash lf_num lf_den (g_p g) k v with
              | Some new => mkG (g_p g) (g_mu g) (set_th th t (C5 k v new)) (g_log g)
              | None => mkG (g_p g) (g_mu g) (set_th th t (Crashed k)) (g_log g)
              end
  | C5 k v new => mkG new (g_mu g) (set_th th t (C6 k (Some v))) (g_log g)
  | C6 k r => mkG (g_p g) None (set_th th t (DoneC k r)) (g_log g)
  end.

Fixpoint exec (g : gstate) (sched : list nat) : gstate :=
  match sched with
  | [] => g
  | t :: r => exec (step g t) r
  end.

(* the calls: Get k or Compute k, one per thread *)
Inductive call := CGet (k : N) | CCompute (k : N).

Definition init_th (calls : list call) : nat -> tstate :=
  fun t => match nth_error calls t with
           | Some (CGet k) => G0 k
           | Some (CCompute k) => C0 k
           | None => TIdle
           end.

(* the call a thread state belongs to *)
Definition owner (ts : tstate) : option call :=
  match ts with
  | TIdle => None
  | G0 k | G1 k _ | DoneG k _ => Some (CGet k)
  | C0 k | C1 k | C2 k _ | C3 k | C4 k _ | C5 k _ _ | C6 k _ | DoneC k _ | Crashed k => Some (CCompute k)
  end.

Definition init (c : N) (calls : list call) : gstate :=
  mkG (newProgramMap c) None (init_th calls) [].

End Rcu.
