(* Cache/C09Model.v - the executable entry points of the C09 correspondence run: the model of
   Cache/PCache.v instantiated with the constants regenerated from /repo/internal/caching/pcache.go. *)
From Coq Require Import NArith List.
From SV.Gen Require Import CacheConsts EncCacheKey.
From SV.Cache Require Import PCache LoadMap Served.
Open Scope N_scope.

Definition cache_new (c : N) : pmap := newProgramMap c.
Definition cache_init_cap : N := InitCapacity.
Definition cache_step (hash : N -> N) (st : option pmap) (o : op) : option pmap * res :=
  step hash LoadFactor_num LoadFactor_den st o.
Definition cache_run (hash : N -> N) (c : N) (ops : list op) : option pmap * list res :=
  run hash LoadFactor_num LoadFactor_den (Some (newProgramMap c)) ops.
Definition loader_loadmany (items : list item) : list (option N) := loadmany items.

(* the encoder program caches (internal/encoder/vars): history of FindOrCompile / pretouchType / pretouchRec over the caches
   selected by the regenerated key shape Gen/EncCacheKey.v *)
Definition enc_hrun (hash : N -> N) (compile : N -> bool -> option N) (h : list hop) :=
  hrun enc_cache enc_cache_eqb hash LoadFactor_num LoadFactor_den compile
       FindOrCompile_get FindOrCompile_compute GetProgram_get ComputeProgram_compute
       (fun _ => newProgramMap InitCapacity) h.
Definition enc_served (hash : N -> N) (st : enc_cache -> pmap) (k : N) (pv : bool) : N :=
  Get hash (st (GetProgram_get pv)) k.
