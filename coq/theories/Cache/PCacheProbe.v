(* Cache/PCacheProbe.v - mask arithmetic (x & (2^e-1) = x mod 2^e, no uint32 wrap below 2^31) and the two probe
   loops of Cache/PCache.v characterised along the probe sequence  home, nxt home, nxt (nxt home), ... *)
From Coq Require Import NArith Arith List Bool Lia.
From SV.Cache Require Import PCache PCacheArr.
Import ListNotations.
Open Scope N_scope.

Definition nxt (m p : N) : N := N.land (u32 (p + 1)) m.
Definition it (m : N) (j : nat) (p : N) : N := Nat.iter j (nxt m) p.

Lemma it_S m j p : it m (S j) p = it m j (nxt m p).
Proof.
  unfold it. induction j as [|j IH]; [reflexivity|].
  change (nxt m (Nat.iter (S j) (nxt m) p) = nxt m (Nat.iter j (nxt m) (nxt m p))). now rewrite IH.
Qed.

Lemma pow2_pos e : 0 < 2 ^ e.
Proof. apply N.neq_0_lt_0. apply N.pow_nonzero. discriminate. Qed.

Lemma pow2_le_31 e : e <= 31 -> 2 ^ e <= 2 ^ 31.
Proof. intros. apply N.pow_le_mono_r; [discriminate|assumption]. Qed.

Lemma ones_succ e : N.ones e + 1 = 2 ^ e.
Proof. rewrite N.ones_equiv. pose proof (pow2_pos e). lia. Qed.

Lemma land_ones_mod x e : N.land x (N.ones e) = x mod 2 ^ e.
Proof. apply N.land_ones. Qed.

Lemma u32_small x : x < 2 ^ 32 -> u32 x = x.
Proof. intros. unfold u32. apply N.mod_small. assumption. Qed.

Lemma u32_cap e : e <= 31 -> u32 (N.ones e + 1) = 2 ^ e.
Proof.
  intros H. rewrite ones_succ. apply u32_small.
  pose proof (pow2_le_31 e H). assert (2 ^ 31 < 2 ^ 32) by (vm_compute; reflexivity). lia.
Qed.

Lemma home_lt e x : N.land x (N.ones e) < 2 ^ e.
Proof. rewrite land_ones_mod. apply N.mod_lt. pose proof (pow2_pos e). lia. Qed.

Lemma nxt_mod e p : e <= 31 -> p < 2 ^ e -> nxt (N.ones e) p = (p + 1) mod 2 ^ e.
Proof.
  intros He Hp. unfold nxt. rewrite land_ones_mod. f_equal. apply u32_small.
  pose proof (pow2_le_31 e He). assert (2 ^ 31 < 2 ^ 32) by (vm_compute; reflexivity). lia.
Qed.

Lemma nxt_lt e p : nxt (N.ones e) p < 2 ^ e.
Proof. unfold nxt. apply home_lt. Qed.

Lemma it_lt e j p : p < 2 ^ e -> it (N.ones e) j p < 2 ^ e.
Proof.
  revert p. induction j as [|j IH]; intros p Hp; [exact Hp|].
  rewrite it_S. apply IH. apply nxt_lt.
Qed.

Lemma it_formula e j : e <= 31 -> forall p, p < 2 ^ e -> it (N.ones e) j p = (p + N.of_nat j) mod 2 ^ e.
Proof.
  intros He. pose proof (pow2_pos e) as Hpos.
  induction j as [|j IH]; intros p Hp.
  - cbn. rewrite N.add_0_r. symmetry. apply N.mod_small. assumption.
  - rewrite it_S, IH by apply nxt_lt. rewrite nxt_mod by assumption.
    rewrite N.add_mod_idemp_l by lia. f_equal. lia.
Qed.

(* every slot is on the probe sequence of every start, within cap steps *)
Lemma it_surj e p q : e <= 31 -> p < 2 ^ e -> q < 2 ^ e ->
  exists j, (j < N.to_nat (2 ^ e))%nat /\ it (N.ones e) j p = q.
Proof.
  intros He Hp Hq. pose proof (pow2_pos e) as Hpos.
  destruct (N.le_gt_cases p q) as [Hle|Hgt].
  - exists (N.to_nat (q - p)). split; [lia|].
    rewrite it_formula by assumption. rewrite N2Nat.id.
    replace (p + (q - p)) with q by lia. apply N.mod_small. assumption.
  - exists (N.to_nat (2 ^ e - p + q)). split; [lia|].
    rewrite it_formula by assumption. rewrite N2Nat.id.
    replace (p + (2 ^ e - p + q)) with (q + 1 * 2 ^ e) by lia.
    rewrite N.mod_add by lia. apply N.mod_small. assumption.
Qed.

(* least index of a decidable property *)
Lemma first_index (P : nat -> bool) : forall j, P j = true ->
  exists j', (j' <= j)%nat /\ P j' = true /\ forall i, (i < j')%nat -> P i = false.
Proof.
  induction j as [j IH] using lt_wf_ind. intros Hj.
  destruct (existsb P (seq 0 j)) eqn:E.
  - apply existsb_exists in E. destruct E as [i [Hin Hi]]. apply in_seq in Hin.
    destruct (IH i) as [j' [Hle [Hp Hmin]]]; [lia|assumption|].
    exists j'. split; [lia|]. split; assumption.
  - exists j. split; [lia|]. split; [assumption|]. intros i Hi.
    destruct (P i) eqn:Ei; [|reflexivity].
    assert (existsb P (seq 0 j) = true); [|congruence].
    apply existsb_exists. exists i. split; [apply in_seq; lia|assumption].
Qed.

Section Loops.
Variable m : N.
Variable b : arr.

Lemma get_loop_found k v : forall j fuel p0,
  (j < fuel)%nat ->
  (forall i, (i < j)%nat -> e_vt (slot b (it m i p0)) <> k /\ e_vt (slot b (it m i p0)) <> 0) ->
  slot b (it m j p0) = mkE k v ->
  get_loop fuel m b k p0 = v.
Proof.
  induction j as [|j IH]; intros fuel p0 Hf Hpre Hj; (destruct fuel as [|fuel]; [lia|]); cbn [get_loop].
  - cbn in Hj. rewrite Hj. cbn [e_vt e_fn]. now rewrite N.eqb_refl.
  - destruct (Hpre O) as [H1 H2]; [lia|]. cbn in H1, H2.
    destruct (N.eqb_spec (e_vt (slot b p0)) k); [congruence|].
    destruct (N.eqb_spec (e_vt (slot b p0)) 0); [congruence|].
    change (N.land (u32 (p0 + 1)) m) with (nxt m p0).
    apply IH; [lia| |].
    + intros i Hi. specialize (Hpre (S i)). rewrite it_S in Hpre. apply Hpre. lia.
    + rewrite <- it_S. assumption.
Qed.

Lemma get_loop_absent k : (forall p, e_vt (slot b p) = k -> e_fn (slot b p) = 0) ->
  forall fuel p0, get_loop fuel m b k p0 = 0.
Proof.
  intros H. induction fuel as [|fuel IH]; intros p0; cbn [get_loop]; [reflexivity|].
  destruct (N.eqb_spec (e_vt (slot b p0)) k); [now apply H|].
  destruct (e_vt (slot b p0) =? 0); [reflexivity|apply IH].
Qed.

Lemma insert_loop_first k v : forall j fuel p0,
  (j < fuel)%nat ->
  (forall i, (i < j)%nat -> e_vt (slot b (it m i p0)) <> 0) ->
  e_vt (slot b (it m j p0)) = 0 ->
  (forall i, (i <= j)%nat -> it m i p0 < a_len b) ->
  insert_loop fuel m b k v p0 = Some (upd (it m j p0) (mkE k v) b).
Proof.
  induction j as [|j IH]; intros fuel p0 Hf Hpre Hj Hb; (destruct fuel as [|fuel]; [lia|]); cbn [insert_loop].
  - cbn in Hj. specialize (Hb O). cbn in Hb.
    destruct (N.ltb_spec p0 (a_len b)); [|lia]. rewrite Hj. reflexivity.
  - pose proof (Hb O) as Hb0. cbn in Hb0.
    destruct (N.ltb_spec p0 (a_len b)); [|lia].
    specialize (Hpre O) as H0. cbn in H0.
    destruct (N.eqb_spec (e_vt (slot b p0)) 0); [lia|]. cbn [negb].
    change (N.land (u32 (p0 + 1)) m) with (nxt m p0).
    rewrite it_S. apply IH; [lia| | |].
    + intros i Hi. specialize (Hpre (S i)). rewrite it_S in Hpre. apply Hpre. lia.
    + rewrite <- it_S. assumption.
    + intros i Hi. specialize (Hb (S i)). rewrite it_S in Hb. apply Hb. lia.
Qed.

End Loops.
