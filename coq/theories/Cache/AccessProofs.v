(* Cache/AccessProofs.v - the lock / atomic discipline of the program caches, over the access list regenerated
   from /repo/internal/caching/pcache.go and /repo/internal/decoder/jitdec/pools.go (Gen/Access.v). *)
From Coq Require Import NArith List String Bool.
From SV.Gen Require Import Access.
Import ListNotations.
Open Scope string_scope.

Definition reachable (f : string) : bool :=
  match find (fun p => String.eqb (fst p) f) api_reachable with
  | Some (_, b) => b
  | None => true      (* unknown function: assume the worst *)
  end.

(* an access is harmless when
   - it goes through sync/atomic, or
   - it touches an object that no other goroutine can see yet (fresh), or
   - it is a plain READ of a _ProgramMap field (published maps are immutable - guaranteed by the absence of
     KPublishedWrite below: every write to a map happens before it is published), or
   - it is a write through the receiver of a writer method (accounted for at the call sites, which must be fresh), or
   - it is a plain access under a mutex to an object that is ONLY accessed under that mutex (fieldCache), or
   - the function cannot run concurrently with anything (only tests / initialisers reach it). *)
Definition harmless (a : access) : bool :=
  match ac_kind a with
  | KAtomic | KFresh | KImmutableRead | KRecvWrite => true
  | KUnderLock => if String.eqb (ac_obj a) "ProgramCache.p" then negb (reachable (ac_func a)) else true
  | KPlain => negb (reachable (ac_func a))
  | KPublishedWrite => false
  end.

Definition is_exception (a : access) : bool :=
  match ac_kind a with
  | KUnderLock => String.eqb (ac_obj a) "ProgramCache.p"
  | KPlain | KPublishedWrite => true
  | _ => false
  end.

Definition exceptions : list (string * string * bool) :=
  map (fun a => (ac_func a, ac_obj a, ac_write a)) (filter is_exception accesses).

(* no plain access to shared cache state is reachable from a concurrent API call, no published map is written *)
Theorem access_discipline_thm : forallb harmless accesses = true.
Proof. vm_compute. reflexivity. Qed.

(* ... and these are ALL the accesses that needed the "not reachable concurrently" argument:
   ProgramCache.Reset replaces p with a plain store under the mutex while Get reads it atomically without the mutex
   (a mixed plain/atomic pair) - only tests call it; freezeValue appends to valueCache without a lock - only the
   package-level initialisers of _V_true/_V_false (through pbool) call it. *)
Theorem access_exceptions_thm :
  exceptions = [ ("ProgramCache.Reset", "ProgramCache.p", true);
                 ("freezeValue", "valueCache", false);
                 ("freezeValue", "valueCache", true) ]
  /\ reachable "ProgramCache.Reset" = false /\ reachable "freezeValue" = false.
Proof. vm_compute. repeat split; reflexivity. Qed.

(* the only methods that write through a _ProgramMap receiver *)
Theorem writer_methods_thm : writer_methods = ["insert"].
Proof. reflexivity. Qed.

(* Cache/Rcu.v and Cache/PCache.v (add) were transcribed from exactly this text *)
Definition rcu_source_expected : list (string * string) := [
  ("_ProgramMap.add", "p := self.copy()");
  ("_ProgramMap.add", "f := float64(atomic.LoadUint64(&p.n)+1) / float64(p.m+1)");
  ("_ProgramMap.add", "if f > _LoadFactor { p = p.rehash() }");
  ("_ProgramMap.add", "p.insert(vt, fn)");
  ("_ProgramMap.add", "return p");
  ("ProgramCache.Reset", "self.m.Lock()");
  ("ProgramCache.Reset", "defer self.m.Unlock()");
  ("ProgramCache.Reset", "self.p = unsafe.Pointer(newProgramMap())");
  ("ProgramCache.Get", "return (*_ProgramMap)(atomic.LoadPointer(&self.p)).get(vt)");
  ("ProgramCache.Compute", "var err error");
  ("ProgramCache.Compute", "var val interface{}");
  ("ProgramCache.Compute", "self.m.Lock()");
  ("ProgramCache.Compute", "defer self.m.Unlock()");
  ("ProgramCache.Compute", "if val = self.Get(vt); val != nil { return val, nil }");
  ("ProgramCache.Compute", "if val, err = compute(vt, ex...); err != nil { return nil, err }");
  ("ProgramCache.Compute", "atomic.StorePointer(&self.p, unsafe.Pointer((*_ProgramMap)(atomic.LoadPointer(&self.p)).add(vt, val)))");
  ("ProgramCache.Compute", "return val, nil")
].

Theorem rcu_source_thm : rcu_source = rcu_source_expected.
Proof. reflexivity. Qed.
