(* Cache/Served.v - WHICH PROGRAM SERVES A TYPE after an arbitrary history of encoder calls.

   internal/encoder/vars/cache.go keeps one ProgramCache per value of the pointer-value flag pv.  The history is any
   sequence of
     HFind k pv        x86/vm EncodeTypedPointer -> vars.FindOrCompile(vt, pv, compiler)         (every Marshal, every OP_recurse)
     HPretouch k pv    pretouchTypeX86 / pretouchTypeVM: GetProgram(vt, pv) ; ComputeProgram(vt, encoder, pv)
     HBatch l          pretouchRecX86: the (type, pv) pairs not yet cached are compiled, loaded in ONE module
                       (loader.LoadMany: every item gets its own code, C09_loadmany_own_code) and published with ComputeProgram
   over the model of the open-addressing cache (Cache/PCache.v).  `compile k pv` is the program the compiler produces for
   (type, flag): Some program (non-nil) or None (error).  Compile options (inline / recursion depth) are NOT part of it:
   that they do not change what a program computes is tested by the fresh-process runs, not proved here.

   The cache selectors are section variables; Cache/C09Thm.v instantiates them with Gen/EncCacheKey.v (regenerated from
   cache.go on every run) and has to prove the side conditions `keyed`: the three entry points address the cache `K pv`,
   hand pv to the compiler, and K is injective.  With a cache keyed by the type only (K constant) they are false. *)
From Coq Require Import NArith Arith List Bool Lia.
From SV.Cache Require Import PCache PCacheArr PCacheProbe PCacheInv PCacheProofs.
Import ListNotations.
Open Scope N_scope.

Inductive hop :=
| HFind (k : N) (pv : bool)
| HPretouch (k : N) (pv : bool)
| HBatch (l : list (N * bool)).

Section Served.
Variable cid : Type.
Variable cid_eqb : cid -> cid -> bool.
Variable hash : N -> N.
Variables lf_num lf_den : N.
Variable compile : N -> bool -> option N.
Variables (fc_get : bool -> cid) (fc_compute : bool -> cid * bool) (gp_get : bool -> cid) (cp_compute : bool -> cid * bool).

Definition supd (st : cid -> pmap) (c : cid) (x : pmap) : cid -> pmap :=
  fun c' => if cid_eqb c' c then x else st c'.

(* cache.Compute(vt, callback, arg) on cache c, the callback compiling with flag `arg` *)
Definition do_compute (st : cid -> pmap) (c : cid) (k : N) (arg : bool) : option ((cid -> pmap) * option N) :=
  match Compute hash lf_num lf_den (st c) k (compile k arg) with
  | Some (c', r) => Some (supd st c c', r)
  | None => None
  end.

Definition find_or_compile (st : cid -> pmap) (k : N) (pv : bool) : option ((cid -> pmap) * option N) :=
  let v := Get hash (st (fc_get pv)) k in
  if negb (v =? 0) then Some (st, Some v)
  else do_compute st (fst (fc_compute pv)) k (snd (fc_compute pv)).

Definition pretouch_type (st : cid -> pmap) (k : N) (pv : bool) : option ((cid -> pmap) * option N) :=
  let v := Get hash (st (gp_get pv)) k in
  if negb (v =? 0) then Some (st, Some v)
  else do_compute st (fst (cp_compute pv)) k (snd (cp_compute pv)).

Definition is_some {A} (o : option A) : bool := match o with Some _ => true | None => false end.

(* pretouchRecX86: pendings = entries whose GetProgram is nil; every one is compiled with ITS flag; an error aborts the batch
   before anything is loaded; otherwise each program is published with ComputeProgram(vt, const program, pv) *)
Definition batch (st : cid -> pmap) (l : list (N * bool)) : option (cid -> pmap) :=
  let pend := filter (fun e => Get hash (st (gp_get (snd e))) (fst e) =? 0) l in
  if forallb (fun e => is_some (compile (fst e) (snd e))) pend then
    fold_left (fun acc e =>
                 match acc with
                 | None => None
                 | Some s => match do_compute s (fst (cp_compute (snd e))) (fst e) (snd e) with
                             | Some (s', _) => Some s'
                             | None => None
                             end
                 end) pend (Some st)
  else Some st.

(* results: what every FindOrCompile of the history returned *)
Fixpoint hrun (st : cid -> pmap) (h : list hop) : option ((cid -> pmap) * list (option N)) :=
  match h with
  | [] => Some (st, [])
  | HFind k pv :: r =>
      match find_or_compile st k pv with
      | Some (st', x) => match hrun st' r with Some (s, xs) => Some (s, x :: xs) | None => None end
      | None => None
      end
  | HPretouch k pv :: r =>
      match pretouch_type st k pv with
      | Some (st', _) => hrun st' r
      | None => None
      end
  | HBatch l :: r =>
      match batch st l with
      | Some st' => hrun st' r
      | None => None
      end
  end.

Fixpoint expected (h : list hop) : list (option N) :=
  match h with
  | [] => []
  | HFind k pv :: r => compile k pv :: expected r
  | _ :: r => expected r
  end.

Fixpoint hsize (h : list hop) : N :=
  match h with
  | [] => 0
  | HBatch l :: r => N.of_nat (length l) + hsize r
  | _ :: r => 1 + hsize r
  end.

Definition hop_ok (o : hop) : Prop :=
  match o with
  | HFind k _ | HPretouch k _ => k <> 0
  | HBatch l => forall e, In e l -> fst e <> 0
  end.

(* ---- hypotheses: the cache is keyed by (type, pv) *)
Variable K : bool -> cid.
Hypothesis cid_eqb_spec : forall a b, cid_eqb a b = true <-> a = b.
Hypothesis K_inj : forall a b, K a = K b -> a = b.
Hypothesis fc_get_K : forall pv, fc_get pv = K pv.
Hypothesis fc_compute_K : forall pv, fc_compute pv = (K pv, pv).
Hypothesis gp_get_K : forall pv, gp_get pv = K pv.
Hypothesis cp_compute_K : forall pv, cp_compute pv = (K pv, pv).
Hypothesis lf_pos : 0 < lf_num.
Hypothesis lf_le1 : lf_num <= lf_den.
Hypothesis compile_nonnil : forall k pv v, compile k pv = Some v -> v <> 0.

(* every cache refines a finite map that holds, for every type, nothing or the program compiled with the cache's flag *)
Definition cinv (st : cid -> pmap) (n : N) : Prop :=
  forall c, exists e f, inv hash e f (st c) /\ pm_n (st c) <= 2 ^ e /\ pm_n (st c) <= n /\
                        forall k pv, f k <> 0 -> K pv = c -> compile k pv = Some (f k).

Lemma cinv_weaken st n n' : cinv st n -> n <= n' -> cinv st n'.
Proof.
  intros H Hle c. destruct (H c) as [e [f [Hi [Hr [Hn Hv]]]]]. exists e, f. split; [assumption|]. split; [assumption|]. split; [lia|assumption].
Qed.

Lemma supd_same st c x : supd st c x c = x.
Proof. unfold supd. destruct (cid_eqb c c) eqn:E; [reflexivity|]. assert (cid_eqb c c = true) by now apply cid_eqb_spec. congruence. Qed.

Lemma supd_other st c x c' : c' <> c -> supd st c x c' = st c'.
Proof. intros H. unfold supd. destruct (cid_eqb c' c) eqn:E; [|reflexivity]. apply cid_eqb_spec in E. congruence. Qed.

Lemma cid_dec (a b : cid) : a = b \/ a <> b.
Proof. destruct (cid_eqb a b) eqn:E; [left; now apply cid_eqb_spec|right; intros H; apply cid_eqb_spec in H; congruence]. Qed.

Lemma do_compute_ok st n k pv :
  cinv st n -> k <> 0 -> lf_den * (n + 1) <= lf_num * 2 ^ 31 ->
  exists st', do_compute st (K pv) k pv = Some (st', compile k pv) /\ cinv st' (n + 1).
Proof.
  intros Hc Hk Hb. destruct (Hc (K pv)) as [e [f [Hi [Hr [Hn Hv]]]]].
  unfold do_compute, Compute. rewrite (inv_get hash e f _ k Hi Hk).
  destruct (N.eqb_spec (f k) 0) as [Hz|Hnz]; cbn [negb].
  - destruct (compile k pv) as [v|] eqn:Ec.
    + assert (Hb1 : lf_den * (pm_n (st (K pv)) + 1) <= lf_num * 2 ^ 31) by nia.
      destruct (inv_add hash lf_num lf_den lf_pos lf_le1 e f (st (K pv)) k v Hi Hk (compile_nonnil k pv v Ec) Hz Hb1 Hr)
        as [s' [e' [Ea [Hi' [Hn' [Hr' _]]]]]].
      rewrite Ea. eexists. split; [reflexivity|]. intros c. destruct (cid_dec c (K pv)) as [->|Hne].
      * rewrite supd_same. exists e', (fupd f k v). split; [exact Hi'|]. split; [exact Hr'|]. split; [lia|].
        intros x pv' Hx HK. apply K_inj in HK. subst pv'. unfold fupd in Hx |- *.
        destruct (N.eqb_spec x k) as [Exk|Exk]; [rewrite Exk; exact Ec|now apply Hv].
      * rewrite supd_other by exact Hne. destruct (Hc c) as [ec [fc [H1 [H2 [H3 H4]]]]].
        exists ec, fc. split; [assumption|]. split; [assumption|]. split; [lia|assumption].
    + eexists. split; [reflexivity|]. intros c. destruct (cid_dec c (K pv)) as [->|Hne].
      * rewrite supd_same. exists e, f. split; [assumption|]. split; [assumption|]. split; [lia|assumption].
      * rewrite supd_other by exact Hne. destruct (Hc c) as [ec [fc [H1 [H2 [H3 H4]]]]].
        exists ec, fc. split; [assumption|]. split; [assumption|]. split; [lia|assumption].
  - rewrite <- (Hv k pv Hnz eq_refl). eexists. split; [reflexivity|]. intros c. destruct (cid_dec c (K pv)) as [->|Hne].
    + rewrite supd_same. exists e, f. split; [assumption|]. split; [assumption|]. split; [lia|assumption].
    + rewrite supd_other by exact Hne. destruct (Hc c) as [ec [fc [H1 [H2 [H3 H4]]]]].
      exists ec, fc. split; [assumption|]. split; [assumption|]. split; [lia|assumption].
Qed.

Lemma served_value st n k pv :
  cinv st n -> k <> 0 ->
  Get hash (st (K pv)) k = 0 \/ compile k pv = Some (Get hash (st (K pv)) k).
Proof.
  intros Hc Hk. destruct (Hc (K pv)) as [e [f [Hi [_ [_ Hv]]]]]. unfold Get.
  rewrite (inv_get hash e f _ k Hi Hk). destruct (N.eq_dec (f k) 0); [now left|right; now apply Hv].
Qed.

Lemma find_ok st n k pv :
  cinv st n -> k <> 0 -> lf_den * (n + 1) <= lf_num * 2 ^ 31 ->
  exists st', find_or_compile st k pv = Some (st', compile k pv) /\ cinv st' (n + 1).
Proof.
  intros Hc Hk Hb. unfold find_or_compile. rewrite fc_get_K, fc_compute_K. cbn [fst snd].
  destruct (served_value st n k pv Hc Hk) as [Hz|Hs].
  - rewrite Hz. cbn [N.eqb negb]. now apply do_compute_ok.
  - destruct (N.eqb_spec (Get hash (st (K pv)) k) 0) as [E|E]; cbn [negb].
    + now apply do_compute_ok.
    + exists st. rewrite Hs. split; [reflexivity|]. apply (cinv_weaken st n); [exact Hc|lia].
Qed.

Lemma pretouch_ok st n k pv :
  cinv st n -> k <> 0 -> lf_den * (n + 1) <= lf_num * 2 ^ 31 ->
  exists st' r, pretouch_type st k pv = Some (st', r) /\ cinv st' (n + 1).
Proof.
  intros Hc Hk Hb. unfold pretouch_type. rewrite gp_get_K, cp_compute_K. cbn [fst snd].
  destruct (negb (Get hash (st (K pv)) k =? 0)).
  - exists st, (Some (Get hash (st (K pv)) k)). split; [reflexivity|]. apply (cinv_weaken st n); [exact Hc|lia].
  - destruct (do_compute_ok st n k pv Hc Hk Hb) as [st' [E Hc']]. exists st', (compile k pv). split; assumption.
Qed.

Lemma batch_fold_ok : forall pend st n,
  cinv st n -> (forall e, In e pend -> fst e <> 0) ->
  lf_den * (n + N.of_nat (length pend) + 1) <= lf_num * 2 ^ 31 ->
  exists st', fold_left (fun acc e =>
                 match acc with
                 | None => None
                 | Some s => match do_compute s (fst (cp_compute (snd e))) (fst e) (snd e) with
                             | Some (s', _) => Some s'
                             | None => None
                             end
                 end) pend (Some st) = Some st' /\ cinv st' (n + N.of_nat (length pend)).
Proof.
  induction pend as [|[k pv] r IH]; intros st n Hc Hk Hb.
  - exists st. cbn. rewrite N.add_0_r. split; [reflexivity|exact Hc].
  - cbn [fold_left length fst snd] in *. rewrite Nat2N.inj_succ in *. rewrite cp_compute_K. cbn [fst].
    destruct (do_compute_ok st n k pv Hc) as [s1 [E1 Hc1]]; [apply (Hk (k, pv)); now left|nia|].
    rewrite E1. destruct (IH s1 (n + 1) Hc1) as [st' [E Hc']]; [intros e He; apply Hk; now right|nia|].
    exists st'. split; [exact E|]. replace (n + N.succ (N.of_nat (length r))) with (n + 1 + N.of_nat (length r)) by lia. exact Hc'.
Qed.

Lemma batch_ok st n l :
  cinv st n -> (forall e, In e l -> fst e <> 0) ->
  lf_den * (n + N.of_nat (length l) + 1) <= lf_num * 2 ^ 31 ->
  exists st', batch st l = Some st' /\ cinv st' (n + N.of_nat (length l)).
Proof.
  intros Hc Hk Hb. unfold batch.
  set (pend := filter (fun e => Get hash (st (gp_get (snd e))) (fst e) =? 0) l).
  assert (Hlen : (length pend <= length l)%nat).
  { unfold pend. clear. induction l as [|x l IH]; cbn [filter length]; [lia|]. destruct (_ =? 0); cbn [length]; lia. }
  destruct (forallb _ pend).
  - destruct (batch_fold_ok pend st n Hc) as [st' [E Hc']].
    + intros e He. apply Hk. unfold pend in He. apply filter_In in He. tauto.
    + nia.
    + exists st'. split; [exact E|]. apply (cinv_weaken st' (n + N.of_nat (length pend))); [exact Hc'|lia].
  - exists st. split; [reflexivity|]. apply (cinv_weaken st n); [exact Hc|lia].
Qed.

Lemma hrun_ok : forall h st n,
  cinv st n -> Forall hop_ok h -> lf_den * (n + hsize h + 1) <= lf_num * 2 ^ 31 ->
  exists st', hrun st h = Some (st', expected h) /\ cinv st' (n + hsize h).
Proof.
  induction h as [|o h IH]; intros st n Hc Hok Hb.
  - exists st. cbn. rewrite N.add_0_r. split; [reflexivity|exact Hc].
  - inversion Hok as [|? ? Ho Hr]; subst. destruct o as [k pv|k pv|l]; cbn [hrun expected hsize hop_ok] in *.
    + destruct (find_ok st n k pv Hc Ho) as [s1 [E1 Hc1]]; [nia|]. rewrite E1.
      destruct (IH s1 (n + 1) Hc1 Hr) as [st' [E Hc']]; [nia|]. rewrite E.
      exists st'. split; [reflexivity|]. replace (n + (1 + hsize h)) with (n + 1 + hsize h) by lia. exact Hc'.
    + destruct (pretouch_ok st n k pv Hc Ho) as [s1 [r [E1 Hc1]]]; [nia|]. rewrite E1.
      destruct (IH s1 (n + 1) Hc1 Hr) as [st' [E Hc']]; [nia|].
      exists st'. split; [exact E|]. replace (n + (1 + hsize h)) with (n + 1 + hsize h) by lia. exact Hc'.
    + destruct (batch_ok st n l Hc Ho) as [s1 [E1 Hc1]]; [nia|]. rewrite E1.
      destruct (IH s1 _ Hc1 Hr) as [st' [E Hc']]; [nia|].
      exists st'. split; [exact E|]. replace (n + (N.of_nat (length l) + hsize h)) with (n + N.of_nat (length l) + hsize h) by lia. exact Hc'.
Qed.

Lemma cinv_new e0 : e0 <= 31 -> cinv (fun _ => newProgramMap (2 ^ e0)) 0.
Proof.
  intros He c. exists e0, (fun _ => 0). split; [now apply inv_new|]. cbn [newProgramMap pm_n].
  pose proof (pow2_pos e0). split; [lia|]. split; [lia|]. intros k pv Hf. congruence.
Qed.

(* MAIN: after EVERY history, every FindOrCompile returned compile(type, pv), and the program that serves (type, pv)
   is - if there is one - compile(type, pv): it never depends on which call compiled first, with which flag, nor on
   what else is cached *)
Theorem served_history_free_gen : forall (e0 : N) (h : list hop),
  e0 <= 31 -> Forall hop_ok h -> lf_den * (hsize h + 1) <= lf_num * 2 ^ 31 ->
  exists st', hrun (fun _ => newProgramMap (2 ^ e0)) h = Some (st', expected h) /\
              forall k pv, k <> 0 ->
                let v := Get hash (st' (gp_get pv)) k in v = 0 \/ compile k pv = Some v.
Proof.
  intros e0 h He Hok Hb.
  destruct (hrun_ok h _ 0 (cinv_new e0 He) Hok) as [st' [E Hc]]; [rewrite N.add_0_l; exact Hb|].
  exists st'. split; [exact E|]. intros k pv Hk. rewrite gp_get_K. exact (served_value st' _ k pv Hc Hk).
Qed.

End Served.
