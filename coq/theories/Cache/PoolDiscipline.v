(* Cache/PoolDiscipline.v - no API call ever sees state that another call left in a pooled object.

   Two sync.Pools carry mutable state between calls:
     "stack"  jitdec decoder stacks (_Stack.sp).  Discipline CLEAN-ON-PUT: freeStack resets sp before Put, newStack hands out
              a pooled (hence clean) or a zero object; the generated decoder relies on sp = 0 and leaves sp > 0 when it
              fails inside nested containers.
     "fsm"    native state machines (StateMachine.Sp).  Discipline INIT-ON-GET: nothing is promised about a pooled machine
              (the pinned CorrectWith itself may return one with Sp > 0); every user initialises it before the first
              read - Sp = 0, or a native routine whose C source runs fsm_init first.
   Events of one control-flow path of one user function (Gen/PoolUse.v, regenerated from the sources on every run):
     PGet  PReset  PUse  PPut.
   Object state as seen by its (exclusive) holder: Unknown (whatever the last user left), Clean, Dirty. *)
From Coq Require Import List Bool Arith Lia String.
From SV.Gen Require Import PoolUse.
Import ListNotations.

Inductive ost := Unknown | Clean | Dirty.

Definition ost_eqb (a b : ost) : bool :=
  match a, b with Unknown, Unknown | Clean, Clean | Dirty, Dirty => true | _, _ => false end.

(* one event of the holder.  cur = None: no object held (a nil *StateMachine: events on it are no-ops).
   got = state of the object the pool hands out.  Result None = the discipline is violated. *)
Definition ev_step (clean_pool : bool) (got : ost) (cur : option ost) (e : pev) : option (option ost * option ost (* put back *)) :=
  match e, cur with
  | PGet, None => Some (Some got, None)
  | PGet, Some _ => None                                   (* second acquisition while holding one *)
  | PReset, None => Some (None, None)
  | PReset, Some _ => Some (Some Clean, None)
  | PUse, None => Some (None, None)
  | PUse, Some Unknown => None                             (* reads state left behind by somebody else *)
  | PUse, Some _ => Some (Some Dirty, None)                (* any outcome, including an error deep inside nested containers *)
  | PPut, None => None
  | PPut, Some s => if clean_pool && negb (ost_eqb s Clean) then None else Some (None, Some s)
  end.

(* what a holder may assume about a freshly acquired object *)
Definition assumed (clean_pool : bool) : ost := if clean_pool then Clean else Unknown.

Fixpoint ok_from (clean_pool : bool) (cur : option ost) (path : list pev) : bool :=
  match path with
  | [] => true
  | e :: r => match ev_step clean_pool (assumed clean_pool) cur e with
              | Some (cur', _) => ok_from clean_pool cur' r
              | None => false
              end
  end.

Definition path_ok (clean_pool : bool) (path : list pev) : bool := ok_from clean_pool None path.

Definition pool_is_clean_on_put (pool : string) : bool := String.eqb pool "stack".

Definition user_ok (u : pool_user) : bool := forallb (path_ok (pool_is_clean_on_put (pu_pool u))) (pu_paths u).

(* ---- executions: any number of threads run paths, interleaved event by event, over one shared pool *)
Record world := mkW { w_pool : list ost; w_th : nat -> option ost * list pev }.

Inductive action :=
| ARun (t : nat) (pick : option nat)      (* thread t executes its next event; a Get takes pooled object #pick, or a new zero object *)
| AStart (t : nat) (path : list pev).     (* thread t (idle, holding nothing) starts a new call *)

Definition set_thread (th : nat -> option ost * list pev) (t : nat) (x : option ost * list pev) :=
  fun t' => if Nat.eqb t' t then x else th t'.

Fixpoint remove_nth {A} (n : nat) (l : list A) : list A :=
  match l, n with
  | [], _ => []
  | _ :: r, O => r
  | x :: r, S n' => x :: remove_nth n' r
  end.

(* None = a violation happened *)
Definition wstep (clean_pool : bool) (w : world) (a : action) : option world :=
  match a with
  | AStart t path =>
      match w_th w t with
      | (None, []) => Some (mkW (w_pool w) (set_thread (w_th w) t (None, path)))
      | _ => Some w
      end
  | ARun t pick =>
      match w_th w t with
      | (_, []) => Some w
      | (cur, e :: r) =>
          let '(got, pool') :=
            match e, pick with
            | PGet, Some i => match nth_error (w_pool w) i with
                              | Some s => (if clean_pool then s else Unknown, remove_nth i (w_pool w))
                              | None => (assumed clean_pool, w_pool w)      (* sync.Pool New / new(_Stack): a zero object *)
                              end
            | _, _ => (assumed clean_pool, w_pool w)
            end in
          match ev_step clean_pool got cur e with
          | None => None
          | Some (cur', back) =>
              Some (mkW (match back with Some s => s :: pool' | None => pool' end) (set_thread (w_th w) t (cur', r)))
          end
      end
  end.

Fixpoint wrun (clean_pool : bool) (w : world) (acts : list action) : option world :=
  match acts with
  | [] => Some w
  | a :: r => match wstep clean_pool w a with Some w' => wrun clean_pool w' r | None => None end
  end.

Definition winv (clean_pool : bool) (w : world) : Prop :=
  (forall t, ok_from clean_pool (fst (w_th w t)) (snd (w_th w t)) = true) /\
  (clean_pool = true -> Forall (fun s => s = Clean) (w_pool w)).

Lemma remove_nth_forall {A} (P : A -> Prop) : forall n l, Forall P l -> Forall P (remove_nth n l).
Proof.
  induction n as [|n IH]; intros [|x l] H; cbn; try constructor; inversion H; subst; auto.
Qed.

Lemma nth_error_forall {A} (P : A -> Prop) l i x : Forall P l -> nth_error l i = Some x -> P x.
Proof. intros H E. rewrite Forall_forall in H. apply H. eapply nth_error_In; eauto. Qed.

Section Exec.
Variable clean_pool : bool.
Variable paths : list (list pev).
Hypothesis paths_ok : forallb (path_ok clean_pool) paths = true.

Definition act_ok (a : action) : Prop :=
  match a with AStart _ p => In p paths | ARun _ _ => True end.

Lemma wstep_inv w a : winv clean_pool w -> act_ok a -> exists w', wstep clean_pool w a = Some w' /\ winv clean_pool w'.
Proof.
  intros [Hth Hpool] Ha. destruct a as [t pick|t path]; cbn [wstep].
  - pose proof (Hth t) as Ht. destruct (w_th w t) as [cur [|e r]] eqn:E; [exists w; split; [reflexivity|split; assumption]|].
    cbn [fst snd] in Ht. cbn [ok_from] in Ht.
    (* the object handed out is what the holder assumed *)
    assert (Hgot : exists got pool',
               (match e, pick with
                | PGet, Some i => match nth_error (w_pool w) i with
                                  | Some s => (if clean_pool then s else Unknown, remove_nth i (w_pool w))
                                  | None => (assumed clean_pool, w_pool w)
                                  end
                | _, _ => (assumed clean_pool, w_pool w)
                end) = (got, pool') /\ got = assumed clean_pool /\
               (clean_pool = true -> Forall (fun s => s = Clean) pool')).
    { destruct e; try (eexists _, _; split; [reflexivity|split; [reflexivity|exact Hpool]]).
      destruct pick as [i|]; [|eexists _, _; split; [reflexivity|split; [reflexivity|exact Hpool]]].
      destruct (nth_error (w_pool w) i) as [s|] eqn:En; [|eexists _, _; split; [reflexivity|split; [reflexivity|exact Hpool]]].
      eexists _, _. split; [reflexivity|]. split.
      - unfold assumed. destruct clean_pool eqn:Ec; [|reflexivity].
        exact (nth_error_forall _ _ _ _ (Hpool eq_refl) En).
      - intros Hc. apply remove_nth_forall. now apply Hpool. }
    destruct Hgot as [got [pool' [Eg [Hg Hp']]]]. rewrite Eg. subst got.
    destruct (ev_step clean_pool (assumed clean_pool) cur e) as [[cur' back]|] eqn:Es; [|discriminate].
    eexists. split; [reflexivity|]. split; cbn [w_th w_pool].
    + intros t'. unfold set_thread. destruct (Nat.eqb_spec t' t) as [->|]; [exact Ht|apply Hth].
    + intros Hc. destruct back as [s|]; [|now apply Hp'].
      constructor; [|now apply Hp'].
      (* a Put into a clean-on-put pool only passes with a Clean object *)
      destruct e, cur as [c|]; cbn in Es; try discriminate; try (destruct c; discriminate).
      rewrite Hc in Es. destruct c; cbn in Es; try discriminate. now inversion Es.
  - destruct (w_th w t) as [[c|] [|e r]] eqn:E; try (exists w; split; [reflexivity|split; assumption]).
    eexists. split; [reflexivity|]. split; cbn [w_th w_pool]; [|exact Hpool].
    intros t'. unfold set_thread. destruct (Nat.eqb_spec t' t) as [->|]; [|apply Hth].
    cbn [fst snd]. rewrite forallb_forall in paths_ok. exact (paths_ok path Ha).
Qed.

(* MAIN: whatever the interleaving, whatever objects the pool hands out, however the calls end (an error may leave any
   state in the object): no call ever reads state left behind by another call, and a clean-on-put pool only ever
   holds clean objects *)
Theorem pool_discipline_gen : forall acts w,
  winv clean_pool w -> Forall act_ok acts ->
  exists w', wrun clean_pool w acts = Some w' /\ winv clean_pool w'.
Proof.
  induction acts as [|a r IH]; intros w Hw Ha; [exists w; split; [reflexivity|exact Hw]|].
  inversion Ha; subst. destruct (wstep_inv w a Hw H1) as [w1 [E1 Hw1]]. cbn [wrun]. rewrite E1. now apply IH.
Qed.

Lemma winv_init : winv clean_pool (mkW [] (fun _ => (None, []))).
Proof. split; [intros t; reflexivity|intros _; constructor]. Qed.

End Exec.

(* ---- the regenerated user programs *)
Definition paths_of (pool : string) : list (list pev) :=
  flat_map pu_paths (filter (fun u => String.eqb (pu_pool u) pool) pool_users).

Theorem pool_users_ok_thm : forallb user_ok pool_users = true.
Proof. vm_compute. reflexivity. Qed.

Lemma stack_paths_ok : forallb (path_ok true) (paths_of "stack") = true.
Proof. vm_compute. reflexivity. Qed.

Lemma fsm_paths_ok : forallb (path_ok false) (paths_of "fsm") = true.
Proof. vm_compute. reflexivity. Qed.

(* the users exist (the theorems are not about an empty list) *)
Lemma pool_users_present :
  map (fun u => (pu_pool u, pu_func u)) pool_users =
  [ ("stack", "/internal/decoder/jitdec.Decode"); ("fsm", "/ast.Parser.skip"); ("fsm", "/ast.Parser.getByPath");
    ("fsm", "/internal/decoder/api.Skip"); ("fsm", "/internal/encoder/alg.Valid"); ("fsm", "/utf8.CorrectWith") ]%string.
Proof. reflexivity. Qed.

Theorem stack_pool_discipline_thm : forall acts,
  Forall (act_ok (paths_of "stack")) acts ->
  exists w', wrun true (mkW [] (fun _ => (None, []))) acts = Some w' /\ Forall (fun s => s = Clean) (w_pool w').
Proof.
  intros acts Ha.
  destruct (pool_discipline_gen true (paths_of "stack") stack_paths_ok acts _ (winv_init true) Ha) as [w' [E [_ Hp]]].
  exists w'. split; [exact E|now apply Hp].
Qed.

Theorem fsm_pool_discipline_thm : forall acts,
  Forall (act_ok (paths_of "fsm")) acts ->
  exists w', wrun false (mkW [] (fun _ => (None, []))) acts = Some w'.
Proof.
  intros acts Ha.
  destruct (pool_discipline_gen false (paths_of "fsm") fsm_paths_ok acts _ (winv_init false) Ha) as [w' [E _]].
  now exists w'.
Qed.

(* the two seeded defects, as paths: freeStack without the reset; CorrectWith resetting only before the Put *)
Example put_without_reset_refuted : path_ok true [PGet; PUse; PPut] = false.
Proof. reflexivity. Qed.
Example use_before_reset_refuted : path_ok false [PGet; PUse; PReset; PPut] = false.
Proof. reflexivity. Qed.
