(* Cache/LoadMapProofs.v - LoadMany serves every item by its own code iff results can be told apart by name. *)
From Coq Require Import NArith Arith List Bool Lia Permutation.
From SV.Gen Require Import LoaderMap.
From SV.Cache Require Import LoadMap.
Import ListNotations.
Open Scope N_scope.

Lemma name_eqb_eq a : forall b, name_eqb a b = true <-> a = b.
Proof.
  induction a as [|x a IH]; intros [|y b]; cbn [name_eqb]; try (split; [discriminate|discriminate]); [tauto|].
  rewrite andb_true_iff, N.eqb_eq, IH. split; [intros [-> ->]; reflexivity|intros E; inversion E; tauto].
Qed.

Lemma name_eqb_refl a : name_eqb a a = true.
Proof. now apply name_eqb_eq. Qed.

Lemma insert_perm f l : Permutation (insert_by_entry f l) (f :: l).
Proof.
  induction l as [|g r IH]; cbn [insert_by_entry]; [reflexivity|].
  destruct (f_entry f <? f_entry g); [reflexivity|].
  rewrite IH. apply perm_swap.
Qed.

Lemma sort_perm l : Permutation (sort_by_entry l) l.
Proof.
  induction l as [|f l IH]; cbn; [reflexivity|]. rewrite insert_perm. now constructor.
Qed.

Definition pick (s : list N) (acc : option N) (f : func) : option N :=
  if name_eqb (f_name f) s then Some (f_entry f) else acc.

Lemma lookup_none s l : forall acc, (forall x, In x l -> f_name x <> s) -> fold_left (pick s) l acc = acc.
Proof.
  induction l as [|x l IH]; intros acc H; cbn [fold_left]; [reflexivity|].
  rewrite IH by (intros y Hy; apply H; now right). unfold pick.
  destruct (name_eqb (f_name x) s) eqn:E; [|reflexivity].
  apply name_eqb_eq in E. exfalso. apply (H x); [now left|exact E].
Qed.

Lemma lookup_unique f l : forall acc, NoDup (map f_name l) -> In f l ->
  fold_left (pick (f_name f)) l acc = Some (f_entry f).
Proof.
  induction l as [|x l IH]; intros acc Hnd Hin; [destruct Hin|].
  cbn [map] in Hnd. inversion Hnd as [|? ? Hx Hnd']; subst. cbn [fold_left].
  destruct Hin as [->|Hin].
  - unfold pick at 2. rewrite name_eqb_refl. apply lookup_none.
    intros y Hy E. apply Hx. rewrite <- E. now apply in_map.
  - now apply IH.
Qed.

Lemma load_by_name_unique funcs : NoDup (map f_name funcs) -> load_by_name funcs = map (fun f => Some (f_entry f)) funcs.
Proof.
  intros Hnd. unfold load_by_name. rewrite map_map. apply map_ext_in. intros f Hf.
  unfold lookup_by_name. change (fun acc f0 => if name_eqb (f_name f0) (f_name f) then Some (f_entry f0) else acc) with (pick (f_name f)).
  pose proof (sort_perm funcs) as Hp.
  apply lookup_unique.
  - apply (Permutation_NoDup (l := map f_name funcs)); [|exact Hnd]. symmetry. now apply Permutation_map.
  - apply (Permutation_in (l := funcs)); [now symmetry|exact Hf].
Qed.

Lemma load_unique funcs : NoDup (map f_name funcs) -> load funcs = map (fun f => Some (f_entry f)) funcs.
Proof.
  intros Hnd. unfold load. destruct LoaderMap.load_maps_by_name; [now apply load_by_name_unique|reflexivity].
Qed.

Lemma build_names items : forall total, map f_name (build_funcs total items) = map it_name items.
Proof. induction items as [|x r IH]; intros total; cbn; [reflexivity|now rewrite IH]. Qed.

Lemma build_entries items : forall total,
  map (fun f => Some (f_entry f)) (build_funcs total items) = own_offsets total items.
Proof. induction items as [|x r IH]; intros total; cbn; [reflexivity|now rewrite IH]. Qed.

(* with pairwise distinct function names every input is mapped to the entry of its own text *)
Theorem loadmany_own_offsets items :
  NoDup (map it_name items) -> loadmany items = own_offsets 0 items.
Proof.
  intros Hnd. destruct items as [|x r]; [reflexivity|].
  unfold loadmany. rewrite load_unique by (rewrite build_names; exact Hnd). apply build_entries.
Qed.

(* ... and the bytes of the loaded text segment at that entry are exactly the item's own machine code *)
Lemma own_offset_code items : forall total i it,
  nth_error items i = Some it ->
  exists off, nth_error (own_offsets total items) i = Some (Some (total + off)) /\
              code_at (concat_text items) off (length (it_text it)) = it_text it.
Proof.
  induction items as [|x r IH]; intros total i it Hi; [destruct i; discriminate|].
  destruct i as [|i]; cbn [nth_error] in Hi.
  - inversion Hi; subst. exists 0. split; [cbn; now rewrite N.add_0_r|].
    unfold code_at, concat_text. cbn [flat_map N.to_nat skipn].
    rewrite firstn_app, Nat.sub_diag, firstn_all. cbn. now rewrite app_nil_r.
  - destruct (IH (total + N.of_nat (length (it_text x))) i it Hi) as [off [Ho Hc]].
    exists (N.of_nat (length (it_text x)) + off). split.
    + cbn [own_offsets nth_error]. rewrite Ho. do 2 f_equal. lia.
    + unfold code_at, concat_text in *. cbn [flat_map].
      rewrite N2Nat.inj_add, Nat2N.id, skipn_app, skipn_all2 by lia.
      cbn [app]. replace (length (it_text x) + N.to_nat off - length (it_text x))%nat with (N.to_nat off) by lia.
      exact Hc.
Qed.

Theorem loadmany_partial_thm items i it :
  NoDup (map it_name items) -> nth_error items i = Some it ->
  exists off, nth_error (loadmany items) i = Some (Some off) /\
              code_at (concat_text items) off (length (it_text it)) = it_text it.
Proof.
  intros Hnd Hi. rewrite (loadmany_own_offsets items Hnd).
  destruct (own_offset_code items 0 i it Hi) as [off [Ho Hc]]. exists off. split; [|exact Hc].
  now rewrite N.add_0_l in Ho.
Qed.

(* the pinned code: two items with the same FuncName are BOTH served by the code of the later one *)
Definition dup_items : list item :=
  [ mkItem [100; 95; 120; 46; 84] [184; 1; 0; 0; 0; 195];            (* "d_x.T": mov eax,1 ; ret *)
    mkItem [100; 95; 120; 46; 84] [184; 2; 0; 0; 0; 195; 204; 204] ]. (* "d_x.T": mov eax,2 ; ret ; int3 int3 *)

Definition loadmany_by_name (items : list item) : list (option N) :=
  match items with [] => [] | _ => load_by_name (build_funcs 0 items) end.

(* why mapping back by name (the shape of the pinned tree before fix cc3de94) was wrong: two items with one name are
   both served by the later one's code *)
Lemma by_name_refuted :
  exists items i it,
    nth_error items i = Some it /\
    (forall off, nth_error (loadmany_by_name items) i = Some (Some off) ->
                 code_at (concat_text items) off (length (it_text it)) <> it_text it).
Proof.
  exists dup_items, 0%nat, (mkItem [100; 95; 120; 46; 84] [184; 1; 0; 0; 0; 195]).
  split; [reflexivity|]. intros off H. vm_compute in H. inversion H; subst. vm_compute. discriminate.
Qed.

(* once the source maps by the recorded entry offset, it holds for all batches, whatever the names *)
Theorem loadmany_total_thm items i it :
  LoaderMap.load_maps_by_name = false -> nth_error items i = Some it ->
  exists off, nth_error (loadmany items) i = Some (Some off) /\
              code_at (concat_text items) off (length (it_text it)) = it_text it.
Proof.
  intros Hm Hi.
  assert (E : loadmany items = own_offsets 0 items).
  { destruct items as [|x r]; [reflexivity|]. unfold loadmany, load. rewrite Hm. apply build_entries. }
  rewrite E. destruct (own_offset_code items 0 i it Hi) as [off [Ho Hc]]. exists off. split; [|exact Hc].
  now rewrite N.add_0_l in Ho.
Qed.
