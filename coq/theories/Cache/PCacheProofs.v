(* Cache/PCacheProofs.v - the program cache refines a finite map, for every hash function and every
   operation sequence (Get / Compute / raw add of a fresh key), across any number of rehashes. *)
From Coq Require Import NArith Arith List Bool Lia.
From SV.Cache Require Import PCache PCacheArr PCacheProbe PCacheInv.
Import ListNotations.
Open Scope N_scope.

(* ---- the specification: a finite map, first write wins (0 = absent / nil) *)
Definition spec_step (f : N -> N) (o : op) : (N -> N) * res :=
  match o with
  | OGet k => (f, RVal (f k))
  | OCompute k r =>
      if negb (f k =? 0) then (f, RVal (f k))
      else match r with
           | None => (f, RErr)
           | Some v => (fupd f k v, RVal v)
           end
  | OAdd k v => (fupd f k v, RVal v)
  end.

Fixpoint spec_run (f : N -> N) (ops : list op) : list res :=
  match ops with
  | [] => []
  | o :: r => let '(f', x) := spec_step f o in x :: spec_run f' r
  end.

Fixpoint spec_final (f : N -> N) (ops : list op) : N -> N :=
  match ops with
  | [] => f
  | o :: r => spec_final (fst (spec_step f o)) r
  end.

(* keys are non-nil descriptors, compiled programs are non-nil, raw add is only used for a type not yet present
   (ProgramCache.Compute guarantees that under its lock) *)
Definition valid_op (f : N -> N) (o : op) : Prop :=
  match o with
  | OGet k => k <> 0
  | OCompute k r => k <> 0 /\ (forall v, r = Some v -> v <> 0)
  | OAdd k v => k <> 0 /\ v <> 0 /\ f k = 0
  end.

Fixpoint valid_ops (f : N -> N) (ops : list op) : Prop :=
  match ops with
  | [] => True
  | o :: r => valid_op f o /\ valid_ops (fst (spec_step f o)) r
  end.

Section Refine.
Variable hash : N -> N.
Variables lf_num lf_den : N.
Hypothesis lf_pos : 0 < lf_num.
Hypothesis lf_le1 : lf_num <= lf_den.

Lemma inv_add e f s k v :
  inv hash e f s -> k <> 0 -> v <> 0 -> f k = 0 ->
  lf_den * (pm_n s + 1) <= lf_num * 2 ^ 31 ->
  pm_n s <= 2 ^ e ->
  exists s' e', add hash lf_num lf_den s k v = Some s' /\ inv hash e' (fupd f k v) s' /\
                pm_n s' = pm_n s + 1 /\ pm_n s' <= 2 ^ e' /\
                ((e' = e /\ lf_den * (pm_n s + 1) <= lf_num * 2 ^ e) \/
                 (e' = e + 1 /\ lf_num * 2 ^ e < lf_den * (pm_n s + 1))).
Proof.
  intros Hinv Hk Hv Hf Hbound Hn.
  pose proof (inv_copy hash e f s Hinv) as Hc.
  unfold add. set (p := copy s) in *.
  assert (Hpn : pm_n p = pm_n s) by reflexivity.
  assert (Hpm : pm_m p = N.ones e) by (destruct Hc; assumption).
  assert (He : e <= 31) by (destruct Hinv; assumption).
  rewrite Hpm, u32_cap, Hpn by assumption.
  pose proof (pow2_pos e) as Hpos.
  destruct (N.ltb_spec (lf_num * 2 ^ e) (lf_den * (pm_n s + 1))) as [Hre|Hno].
  - (* rehash *)
    assert (Hlt : e < 31).
    { destruct (N.lt_ge_cases e 31) as [|Hge]; [assumption|].
      assert (2 ^ 31 <= 2 ^ e) by (apply N.pow_le_mono_r; [discriminate|assumption]). nia. }
    destruct (inv_rehash hash e f p Hc Hlt) as [q [Eq [Hq Hqn]]]. rewrite Eq.
    assert (Hpow : 2 ^ (e + 1) = 2 ^ e * 2) by (rewrite N.pow_add_r; reflexivity).
    destruct (inv_insert hash (e + 1) f q k v Hq Hk Hv Hf) as [s' [Es [Hs' Hn']]]; [lia|].
    exists s', (e + 1). split; [exact Es|]. split; [exact Hs'|]. split; [lia|]. split; [lia|]. right. split; [reflexivity|exact Hre].
  - (* room left *)
    assert (Hroom : pm_n s + 1 <= 2 ^ e).
    { assert (lf_den * (pm_n s + 1) <= lf_den * 2 ^ e) by nia. nia. }
    destruct (inv_insert hash e f p k v Hc Hk Hv Hf) as [s' [Es [Hs' Hn']]]; [lia|].
    exists s', e. split; [exact Es|]. split; [exact Hs'|]. split; [lia|]. split; [lia|]. left. split; [reflexivity|exact Hno].
Qed.

(* number of insertions an operation sequence can perform *)
Definition ins_bound (ops : list op) : N := N.of_nat (length ops).

Lemma run_refines : forall ops e f s,
  inv hash e f s -> valid_ops f ops -> pm_n s <= 2 ^ e ->
  lf_den * (pm_n s + ins_bound ops + 1) <= lf_num * 2 ^ 31 ->
  exists s' e', run hash lf_num lf_den (Some s) ops = (Some s', spec_run f ops) /\
                inv hash e' (spec_final f ops) s' /\ pm_n s' <= 2 ^ e' /\ e <= e'.
Proof.
  unfold ins_bound.
  induction ops as [|o ops IH]; intros e f s Hinv Hval Hn Hb.
  - exists s, e. cbn. split; [reflexivity|]. split; [exact Hinv|]. split; [exact Hn|lia].
  - cbn [valid_ops] in Hval. destruct Hval as [Hvo Hvr].
    cbn [length] in Hb. rewrite Nat2N.inj_succ in Hb.
    assert (Hb1 : lf_den * (pm_n s + 1) <= lf_num * 2 ^ 31) by nia.
    cbn [run spec_run spec_final step].
    destruct o as [k|k r|k v]; cbn [valid_op] in Hvo.
    + (* Get *)
      cbn [spec_step fst] in *. unfold Get. rewrite (inv_get hash e f s k Hinv Hvo).
      destruct (IH e f s Hinv Hvr Hn) as [s' [e' [Er [Hi [Hn' Hee]]]]]; [nia|].
      rewrite Er. exists s', e'. split; [reflexivity|]. split; [exact Hi|]. split; [exact Hn'|exact Hee].
    + (* Compute *)
      destruct Hvo as [Hk Hr]. unfold Compute. rewrite (inv_get hash e f s k Hinv Hk).
      cbn [spec_step] in *. destruct (N.eqb_spec (f k) 0) as [Hz|Hnz]; cbn [negb fst] in *.
      * destruct r as [v|].
        -- destruct (inv_add e f s k v Hinv Hk (Hr v eq_refl) Hz Hb1 Hn) as [s1 [e1 [Ea [Hi1 [Hn1 [Hle1 Hcase]]]]]].
           rewrite Ea. cbn [fst] in Hvr.
           destruct (IH e1 (fupd f k v) s1 Hi1 Hvr Hle1) as [s' [e' [Er [Hi [Hn' Hee]]]]]; [nia|].
           rewrite Er. exists s', e'. split; [reflexivity|]. split; [exact Hi|]. split; [exact Hn'|].
           destruct Hcase as [[-> _]|[-> _]]; lia.
        -- cbn [fst] in Hvr.
           destruct (IH e f s Hinv Hvr Hn) as [s' [e' [Er [Hi [Hn' Hee]]]]]; [nia|].
           rewrite Er. exists s', e'. split; [reflexivity|]. split; [exact Hi|]. split; [exact Hn'|exact Hee].
      * destruct (N.eqb_spec (f k) 0); [congruence|]. cbn [negb].
        destruct (IH e f s Hinv Hvr Hn) as [s' [e' [Er [Hi [Hn' Hee]]]]]; [nia|].
        rewrite Er. exists s', e'. split; [reflexivity|]. split; [exact Hi|]. split; [exact Hn'|exact Hee].
    + (* raw add of a fresh key *)
      destruct Hvo as [Hk [Hv Hz]]. cbn [spec_step fst] in *.
      destruct (inv_add e f s k v Hinv Hk Hv Hz Hb1 Hn) as [s1 [e1 [Ea [Hi1 [Hn1 [Hle1 Hcase]]]]]].
      rewrite Ea.
      destruct (IH e1 (fupd f k v) s1 Hi1 Hvr Hle1) as [s' [e' [Er [Hi [Hn' Hee]]]]]; [nia|].
      rewrite Er. exists s', e'. split; [reflexivity|]. split; [exact Hi|]. split; [exact Hn'|].
           destruct Hcase as [[-> _]|[-> _]]; lia.
Qed.

Lemma inv_new e0 : e0 <= 31 -> inv hash e0 (fun _ => 0) (newProgramMap (2 ^ e0)).
Proof.
  intros He. unfold newProgramMap. constructor; cbn [pm_m pm_b pm_n].
  - now apply newmap_mask.
  - exact He.
  - apply wfb_make.
  - rewrite occ_empty; [reflexivity|]. intros q. now rewrite slot_make.
  - intros k _ H. cbn in H. congruence.
  - intros k Hk _ p. rewrite slot_make. cbn. congruence.
Qed.

(* MAIN: for every hash function, initial capacity 2^e0 and valid operation sequence, the real data structure
   (the model of it) never panics and answers exactly like the finite map. *)
Theorem pcache_refines_map_gen : forall e0 ops,
  e0 <= 31 -> valid_ops (fun _ => 0) ops ->
  lf_den * (N.of_nat (length ops) + 1) <= lf_num * 2 ^ 31 ->
  exists s' e',
    run hash lf_num lf_den (Some (newProgramMap (2 ^ e0))) ops = (Some s', spec_run (fun _ => 0) ops) /\
    inv hash e' (spec_final (fun _ => 0) ops) s' /\ pm_n s' <= 2 ^ e' /\
    (forall k, k <> 0 -> Get hash s' k = spec_final (fun _ => 0) ops k).
Proof.
  intros e0 ops He Hv Hb.
  destruct (run_refines ops e0 (fun _ => 0) (newProgramMap (2 ^ e0)) (inv_new e0 He) Hv) as [s' [e' [Er [Hi [Hn _]]]]].
  - cbn. pose proof (pow2_pos e0). lia.
  - cbn [newProgramMap pm_n]. unfold ins_bound. lia.
  - exists s', e'. split; [exact Er|]. split; [exact Hi|]. split; [exact Hn|].
    intros k Hk. unfold Get. now apply (inv_get hash e').
Qed.

(* ---- the load invariant n <= cap/2, for _LoadFactor = 1/2 and an initial capacity >= 2 *)
Hypothesis lf_half : 2 * lf_num = lf_den.

Lemma run_half : forall ops e f s,
  inv hash e f s -> valid_ops f ops -> 1 <= e -> 2 * pm_n s <= 2 ^ e ->
  lf_den * (pm_n s + ins_bound ops + 1) <= lf_num * 2 ^ 31 ->
  exists s' e', run hash lf_num lf_den (Some s) ops = (Some s', spec_run f ops) /\
                pm_m s' = N.ones e' /\ 2 * pm_n s' <= 2 ^ e'.
Proof.
  unfold ins_bound.
  induction ops as [|o ops IH]; intros e f s Hinv Hval He1 Hh Hb.
  - exists s, e. cbn. split; [reflexivity|]. split; [destruct Hinv; assumption|assumption].
  - cbn [valid_ops] in Hval. destruct Hval as [Hvo Hvr].
    cbn [length] in Hb. rewrite Nat2N.inj_succ in Hb.
    assert (Hb1 : lf_den * (pm_n s + 1) <= lf_num * 2 ^ 31) by nia.
    assert (Hn : pm_n s <= 2 ^ e) by lia.
    assert (Hstep : forall k v, k <> 0 -> v <> 0 -> f k = 0 ->
      exists s1 e1, add hash lf_num lf_den s k v = Some s1 /\ inv hash e1 (fupd f k v) s1 /\ 1 <= e1 /\
                    2 * pm_n s1 <= 2 ^ e1 /\ pm_n s1 = pm_n s + 1).
    { intros k v Hk Hv Hz.
      destruct (inv_add e f s k v Hinv Hk Hv Hz Hb1 Hn) as [s1 [e1 [Ea [Hi1 [Hn1 [Hle1 Hcase]]]]]].
      exists s1, e1. split; [exact Ea|]. split; [exact Hi1|].
      destruct Hcase as [[-> Hc]|[-> Hc]].
      - split; [exact He1|]. split; [nia|exact Hn1].
      - split; [lia|]. split; [|exact Hn1].
        rewrite N.pow_add_r. change (2 ^ 1) with 2.
        assert (2 <= 2 ^ e) by (change 2 with (2 ^ 1) at 1; apply N.pow_le_mono_r; [discriminate|exact He1]). lia. }
    cbn [run spec_run step].
    destruct o as [k|k r|k v]; cbn [valid_op] in Hvo.
    + cbn [spec_step fst] in *. unfold Get. rewrite (inv_get hash e f s k Hinv Hvo).
      destruct (IH e f s Hinv Hvr He1 Hh) as [s' [e' [Er Hres]]]; [nia|].
      rewrite Er. exists s', e'. split; [reflexivity|exact Hres].
    + destruct Hvo as [Hk Hr]. unfold Compute. rewrite (inv_get hash e f s k Hinv Hk).
      cbn [spec_step] in *. destruct (N.eqb_spec (f k) 0) as [Hz|Hnz]; cbn [negb fst] in *.
      * destruct r as [v|].
        -- destruct (Hstep k v Hk (Hr v eq_refl) Hz) as [s1 [e1 [Ea [Hi1 [He11 [Hh1 Hn1]]]]]].
           rewrite Ea. cbn [fst] in Hvr.
           destruct (IH e1 (fupd f k v) s1 Hi1 Hvr He11 Hh1) as [s' [e' [Er Hres]]]; [nia|].
           rewrite Er. exists s', e'. split; [reflexivity|exact Hres].
        -- cbn [fst] in Hvr.
           destruct (IH e f s Hinv Hvr He1 Hh) as [s' [e' [Er Hres]]]; [nia|].
           rewrite Er. exists s', e'. split; [reflexivity|exact Hres].
      * destruct (N.eqb_spec (f k) 0); [congruence|]. cbn [negb].
        destruct (IH e f s Hinv Hvr He1 Hh) as [s' [e' [Er Hres]]]; [nia|].
        rewrite Er. exists s', e'. split; [reflexivity|exact Hres].
    + destruct Hvo as [Hk [Hv Hz]]. cbn [spec_step fst] in *.
      destruct (Hstep k v Hk Hv Hz) as [s1 [e1 [Ea [Hi1 [He11 [Hh1 Hn1]]]]]].
      rewrite Ea.
      destruct (IH e1 (fupd f k v) s1 Hi1 Hvr He11 Hh1) as [s' [e' [Er Hres]]]; [nia|].
      rewrite Er. exists s', e'. split; [reflexivity|exact Hres].
Qed.

Theorem pcache_half_load_gen : forall e0 ops,
  1 <= e0 -> e0 <= 31 -> valid_ops (fun _ => 0) ops ->
  lf_den * (N.of_nat (length ops) + 1) <= lf_num * 2 ^ 31 ->
  exists s', fst (run hash lf_num lf_den (Some (newProgramMap (2 ^ e0))) ops) = Some s' /\
             2 * pm_n s' <= pm_m s' + 1.
Proof.
  intros e0 ops He1 He Hv Hb.
  destruct (run_half ops e0 (fun _ => 0) (newProgramMap (2 ^ e0)) (inv_new e0 He) Hv He1) as [s' [e' [Er [Hm Hh]]]].
  - cbn. pose proof (pow2_pos e0). lia.
  - cbn [newProgramMap pm_n]. unfold ins_bound. lia.
  - exists s'. rewrite Er. split; [reflexivity|]. rewrite Hm, ones_succ. exact Hh.
Qed.

End Refine.

(* the probe loop of get is never cut short by its iteration bound `i := m + 1`: any larger bound gives the same answer *)
Lemma inv_fuel hash e f s k d :
  inv hash e f s -> k <> 0 ->
  get_loop (N.to_nat (u32 (pm_m s + 1)) + d) (pm_m s) (pm_b s) k (N.land (u32 (hash k)) (pm_m s)) = get hash s k.
Proof.
  intros Hinv Hk. unfold get. destruct Hinv as [Hm He Hwf Hn Hpr Hab].
  destruct (N.eq_dec (f k) 0) as [Hz|Hnz].
  - rewrite !get_loop_absent; [reflexivity| |]; intros p Hp; exfalso; exact (Hab k Hk Hz p Hp).
  - destruct (Hpr k Hk Hnz) as [p Hp]. rewrite Hm, u32_cap by assumption.
    exact (get_loop_fuel_irrelevant hash e (pm_b s) p k (f k) d Hwf He Hp Hk).
Qed.

(* WITHOUT the presence check of Compute, raw add of a key that is already present makes get depend on history:
   capacity 4, hash(1) = 3, hash(2) = 0.  add(1,10); add(1,20) -> get 1 = 10.  One more, unrelated, add(2,30)
   triggers the rehash, which re-inserts slot 0 (holding (1,20), wrapped around) before slot 3: get 1 = 20. *)
Example raw_add_of_present_key_is_history_dependent :
  let hash := fun k => if k =? 1 then 3 else 0 in
  let ops := [OAdd 1 10; OAdd 1 20; OGet 1; OAdd 2 30; OGet 1] in
  snd (run hash 1 2 (Some (newProgramMap 4)) ops) = [RVal 10; RVal 20; RVal 10; RVal 30; RVal 20].
Proof. vm_compute. reflexivity. Qed.
