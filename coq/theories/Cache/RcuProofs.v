(* Cache/RcuProofs.v - for every schedule: every completed call returns `compute vt`, the published map is always
   well-formed, no entry is ever lost, the compile callback succeeds at most once per type, add never panics. *)
From Coq Require Import NArith Arith List Bool Lia.
From SV.Cache Require Import PCache PCacheArr PCacheProbe PCacheInv PCacheProofs Rcu.
Import ListNotations.
Open Scope N_scope.

Section RcuProofs.
Variable hash : N -> N.
Variables lf_num lf_den : N.
Variable compute : N -> option N.
Hypothesis lf_pos : 0 < lf_num.
Hypothesis lf_le1 : lf_num <= lf_den.
Hypothesis compute_nonnil : forall k v, compute k = Some v -> v <> 0.

Definition critical (ts : tstate) : bool :=
  match ts with
  | C1 _ | C2 _ _ | C3 _ | C4 _ _ | C5 _ _ _ | C6 _ _ => true
  | _ => false
  end.

(* what a call may return: Get -> nil or the program of its type; Compute -> the program, or the error of compute *)
Definition ok_get (k : N) (v : N) : Prop := v = 0 \/ compute k = Some v.
Definition ok_compute (k : N) (r : option N) : Prop := r = compute k.

Definition ext (f f' : N -> N) : Prop := forall x, f x <> 0 -> f' x = f x.

Definition tinv (f : N -> N) (p : pmap) (ts : tstate) : Prop :=
  match ts with
  | TIdle => True
  | Crashed _ => False
  | G0 k | C0 k | C1 k => k <> 0
  | G1 k s => k <> 0 /\ exists es fs, inv hash es fs s /\ ext fs f
  | C2 k s => k <> 0 /\ s = p
  | C3 k => k <> 0 /\ f k = 0
  | C4 k v => k <> 0 /\ f k = 0 /\ compute k = Some v
  | C5 k v new => k <> 0 /\ f k = 0 /\ compute k = Some v /\
                  exists e', inv hash e' (fupd f k v) new /\ pm_n new = pm_n p + 1 /\ pm_n new <= 2 ^ e'
  | C6 k r => k <> 0 /\ ok_compute k r
  | DoneG k v => k <> 0 /\ ok_get k v
  | DoneC k r => k <> 0 /\ ok_compute k r
  end.

Definition in_flight (x : N) (ts : tstate) : Prop :=
  match ts with C4 k _ | C5 k _ _ => k = x | _ => False end.

Record ginv (e : N) (f : N -> N) (n : N) (g : gstate) : Prop := {
  gi_inv : inv hash e f (g_p g);
  gi_room : pm_n (g_p g) <= 2 ^ e;
  gi_val : forall k, f k <> 0 -> compute k = Some (f k);
  gi_cnt : pm_n (g_p g) <= n;
  gi_free : g_mu g = None -> forall t, critical (g_th g t) = false;
  gi_held : forall t0, g_mu g = Some t0 -> critical (g_th g t0) = true /\ forall t, t <> t0 -> critical (g_th g t) = false;
  gi_th : forall t, tinv f (g_p g) (g_th g t);
  gi_nodup : NoDup (g_log g);
  gi_log : forall x, In x (g_log g) -> f x <> 0 \/ exists t, in_flight x (g_th g t)
}.

Lemma ext_refl f : ext f f.
Proof. intros x _. reflexivity. Qed.

Lemma ext_trans f1 f2 f3 : ext f1 f2 -> ext f2 f3 -> ext f1 f3.
Proof. intros H12 H23 x Hx. rewrite H23; [now apply H12|]. rewrite H12; assumption. Qed.

Lemma ext_fupd f k v : f k = 0 -> ext f (fupd f k v).
Proof. intros Hz x Hx. unfold fupd. destruct (N.eqb_spec x k); [congruence|reflexivity]. Qed.

(* threads outside the critical section only depend on f monotonically, and not on p *)
Lemma tinv_mono f f' p p' ts : critical ts = false -> ext f f' -> tinv f p ts -> tinv f' p' ts.
Proof.
  intros Hc He. destruct ts; cbn [critical] in Hc; try discriminate; cbn [tinv]; try tauto.
  intros [Hk [es [fs [Hi Hx]]]]. split; [exact Hk|]. exists es, fs. split; [exact Hi|]. exact (ext_trans _ _ _ Hx He).
Qed.

Lemma set_th_same th t x : set_th th t x t = x.
Proof. unfold set_th. now rewrite Nat.eqb_refl. Qed.

Lemma set_th_other th t x t' : t' <> t -> set_th th t x t' = th t'.
Proof. intros H. unfold set_th. destruct (Nat.eqb_spec t' t); [congruence|reflexivity]. Qed.

(* generic re-establishment of the invariant when thread t moves to state x, the lock and the map being given *)
Lemma ginv_move e f n g t x :
  ginv e f n g ->
  tinv f (g_p g) x ->
  critical x = critical (g_th g t) ->
  (forall y, in_flight y (g_th g t) -> in_flight y x) ->
  ginv e f (n + 1) (mkG (g_p g) (g_mu g) (set_th (g_th g) t x) (g_log g)).
Proof.
  intros [Hi Hr Hv Hc Hf Hh Ht Hnd Hl] Hx Hcr Hfl. constructor; cbn [g_p g_mu g_th g_log]; try assumption.
  - lia.
  - intros Hm t'. unfold set_th. destruct (Nat.eqb_spec t' t) as [->|]; [rewrite Hcr|]; now apply Hf.
  - intros t0 Hm. destruct (Hh t0 Hm) as [H1 H2]. split.
    + unfold set_th. destruct (Nat.eqb_spec t0 t) as [->|]; [now rewrite Hcr|exact H1].
    + intros t' Hne. unfold set_th. destruct (Nat.eqb_spec t' t) as [->|]; [rewrite Hcr|]; now apply H2.
  - intros t'. unfold set_th. destruct (Nat.eqb_spec t' t); [exact Hx|apply Ht].
  - intros y Hy. destruct (Hl y Hy) as [Hfy|[t' Ht']]; [now left|]. right.
    destruct (Nat.eq_dec t' t) as [->|Hne].
    + exists t. rewrite set_th_same. now apply Hfl.
    + exists t'. now rewrite set_th_other.
Qed.

(* the lock holder is the only critical thread *)
Lemma holder_unique e f n g t : ginv e f n g -> critical (g_th g t) = true -> g_mu g = Some t.
Proof.
  intros Hg Hc. destruct (g_mu g) as [t0|] eqn:Em.
  - destruct (Nat.eq_dec t t0) as [->|Hne]; [reflexivity|].
    destruct (gi_held _ _ _ _ Hg t0 Em) as [_ H]. rewrite (H t Hne) in Hc. discriminate.
  - rewrite (gi_free _ _ _ _ Hg Em t) in Hc. discriminate.
Qed.

Lemma step_ginv e f n g t :
  ginv e f n g -> lf_den * (n + 1) <= lf_num * 2 ^ 31 ->
  exists e' f', ginv e' f' (n + 1) (step hash lf_num lf_den compute g t) /\ ext f f'.
Proof.
  intros Hg Hb. pose proof (gi_th _ _ _ _ Hg t) as Ht. unfold step.
  destruct (g_th g t) as [|k|k s|k|k|k s|k|k v|k v new|k r|k v|k r|k] eqn:Eth; cbn [tinv] in Ht.
  - (* idle *) exists e, f. split; [|apply ext_refl]. destruct Hg; constructor; try assumption; lia.
  - (* G0: load *) exists e, f. split; [|apply ext_refl].
    apply ginv_move; [exact Hg| |now rewrite Eth|rewrite Eth; intros y []].
    cbn [tinv]. split; [exact Ht|]. exists e, f. split; [apply Hg|apply ext_refl].
  - (* G1: probe the snapshot *) exists e, f. split; [|apply ext_refl].
    destruct Ht as [Hk [es [fs [His Hx]]]].
    apply ginv_move; [exact Hg| |now rewrite Eth|rewrite Eth; intros y []].
    cbn [tinv]. split; [exact Hk|]. unfold ok_get.
    rewrite (inv_get hash es fs s k His Hk).
    destruct (N.eq_dec (fs k) 0) as [Hz|Hnz]; [now left|right].
    rewrite <- (Hx k Hnz). apply (gi_val _ _ _ _ Hg). rewrite (Hx k Hnz). exact Hnz.
  - (* C0: lock *) destruct (g_mu g) as [t0|] eqn:Em.
    + exists e, f. split; [|apply ext_refl]. destruct Hg; constructor; try assumption; lia.
    + exists e, f. split; [|apply ext_refl].
      destruct Hg as [Hi Hr Hv Hc Hf Hh Hth Hnd Hl]. constructor; cbn [g_p g_mu g_th g_log]; try assumption.
      * lia.
      * discriminate.
      * intros t0 E. inversion E; subst t0. split; [now rewrite set_th_same|].
        intros t' Hne. rewrite set_th_other by exact Hne. now apply Hf.
      * intros t'. unfold set_th. destruct (Nat.eqb_spec t' t); [exact Ht|apply Hth].
      * intros y Hy. destruct (Hl y Hy) as [|[t' Ht']]; [now left|right].
        exists t'. rewrite set_th_other; [exact Ht'|]. intros ->. rewrite Eth in Ht'. exact Ht'.
  - (* C1: load under the lock *) exists e, f. split; [|apply ext_refl].
    apply ginv_move; [exact Hg| |now rewrite Eth|rewrite Eth; intros y []].
    cbn [tinv]. split; [exact Ht|reflexivity].
  - (* C2: probe, branch *) destruct Ht as [Hk ->]. exists e, f. split; [|apply ext_refl].
    rewrite (inv_get hash e f (g_p g) k (gi_inv _ _ _ _ Hg) Hk).
    destruct (N.eqb_spec (f k) 0) as [Hz|Hnz]; cbn [negb].
    + apply ginv_move; [exact Hg| |now rewrite Eth|rewrite Eth; intros y []]. cbn [tinv]. now split.
    + apply ginv_move; [exact Hg| |now rewrite Eth|rewrite Eth; intros y []]. cbn [tinv]. unfold ok_compute.
      split; [exact Hk|]. symmetry. now apply (gi_val _ _ _ _ Hg).
  - (* C3: compute *) destruct Ht as [Hk Hz]. exists e, f. split; [|apply ext_refl].
    destruct (compute k) as [v|] eqn:Ec.
    + assert (Hmu : g_mu g = Some t) by (apply (holder_unique e f n); [exact Hg|now rewrite Eth]).
      destruct Hg as [Hi Hr Hv Hc Hf Hh Hth Hnd Hl]. constructor; cbn [g_p g_mu g_th g_log]; try assumption.
      * lia.
      * congruence.
      * intros t0 E. destruct (Hh t0 E) as [H1 H2]. assert (t0 = t) by congruence. subst t0.
        split; [now rewrite set_th_same|]. intros t' Hne. rewrite set_th_other by exact Hne. now apply H2.
      * intros t'. unfold set_th. destruct (Nat.eqb_spec t' t); [cbn [tinv]; now repeat split|apply Hth].
      * constructor; [|exact Hnd]. intros Hin. destruct (Hl k Hin) as [|[t' Ht']]; [congruence|].
        destruct (Nat.eq_dec t' t) as [->|Hne]; [rewrite Eth in Ht'; exact Ht'|].
        destruct (Hh t Hmu) as [_ H2]. specialize (H2 t' Hne).
        destruct (g_th g t'); cbn in Ht', H2; try contradiction; discriminate.
      * intros y [<-|Hy].
        -- right. exists t. rewrite set_th_same. reflexivity.
        -- destruct (Hl y Hy) as [|[t' Ht']]; [now left|right]. exists t'.
           rewrite set_th_other; [exact Ht'|]. intros ->. rewrite Eth in Ht'. exact Ht'.
    + apply ginv_move; [exact Hg| |now rewrite Eth|rewrite Eth; intros y []]. cbn [tinv]. unfold ok_compute. now split.
  - (* C4: load + add *) destruct Ht as [Hk [Hz Hcv]]. exists e, f. split; [|apply ext_refl].
    assert (Hb1 : lf_den * (pm_n (g_p g) + 1) <= lf_num * 2 ^ 31).
    { pose proof (gi_cnt _ _ _ _ Hg). nia. }
    destruct (inv_add hash lf_num lf_den lf_pos lf_le1 e f (g_p g) k v (gi_inv _ _ _ _ Hg) Hk
                (compute_nonnil k v Hcv) Hz Hb1 (gi_room _ _ _ _ Hg)) as [s' [e' [Ea [Hi' [Hn' [Hr' _]]]]]].
    rewrite Ea.
    apply ginv_move; [exact Hg| |now rewrite Eth|rewrite Eth; cbn; tauto].
    cbn [tinv]. split; [exact Hk|]. split; [exact Hz|]. split; [exact Hcv|].
    exists e'. split; [exact Hi'|]. split; [exact Hn'|exact Hr'].
  - (* C5: publish *) destruct Ht as [Hk [Hz [Hcv [e' [Hi' [Hn' Hr']]]]]].
    exists e', (fupd f k v). split; [|now apply ext_fupd].
    assert (Hmu : g_mu g = Some t) by (apply (holder_unique e f n); [exact Hg|now rewrite Eth]).
    destruct Hg as [Hi Hr Hv Hc Hf Hh Hth Hnd Hl]. constructor; cbn [g_p g_mu g_th g_log]; try assumption.
    + intros x. unfold fupd. destruct (N.eqb_spec x k) as [->|]; [intros _; exact Hcv|apply Hv].
    + lia.
    + congruence.
    + intros t0 E. destruct (Hh t0 E) as [H1 H2]. assert (t0 = t) by congruence. subst t0.
      split; [now rewrite set_th_same|]. intros t' Hne. rewrite set_th_other by exact Hne. now apply H2.
    + intros t'. unfold set_th. destruct (Nat.eqb_spec t' t) as [->|Hne].
      * cbn [tinv]. unfold ok_compute. now split.
      * apply (tinv_mono f (fupd f k v) (g_p g) new); [|now apply ext_fupd|apply Hth].
        destruct (Hh t Hmu) as [_ H2]. now apply H2.
    + intros y Hy. destruct (Hl y Hy) as [Hfy|[t' Ht']].
      * left. unfold fupd. destruct (N.eqb_spec y k); [now apply (compute_nonnil k)|exact Hfy].
      * destruct (Nat.eq_dec t' t) as [->|Hne].
        -- rewrite Eth in Ht'. cbn in Ht'. subst y. left. unfold fupd. rewrite N.eqb_refl. now apply (compute_nonnil k).
        -- right. exists t'. now rewrite set_th_other.
  - (* C6: unlock, return *) destruct Ht as [Hk Hok]. exists e, f. split; [|apply ext_refl].
    assert (Hmu : g_mu g = Some t) by (apply (holder_unique e f n); [exact Hg|now rewrite Eth]).
    destruct Hg as [Hi Hr Hv Hc Hf Hh Hth Hnd Hl]. constructor; cbn [g_p g_mu g_th g_log]; try assumption.
    + lia.
    + intros _ t'. unfold set_th. destruct (Nat.eqb_spec t' t) as [->|Hne]; [reflexivity|].
      destruct (Hh t Hmu) as [_ H2]. now apply H2.
    + discriminate.
    + intros t'. unfold set_th. destruct (Nat.eqb_spec t' t); [cbn [tinv]; split; [exact Hk|exact Hok]|apply Hth].
    + intros y Hy. destruct (Hl y Hy) as [|[t' Ht']]; [now left|right]. exists t'.
      rewrite set_th_other; [exact Ht'|]. intros ->. rewrite Eth in Ht'. exact Ht'.
  - (* done *) exists e, f. split; [|apply ext_refl]. destruct Hg; constructor; try assumption; lia.
  - (* done *) exists e, f. split; [|apply ext_refl]. destruct Hg; constructor; try assumption; lia.
  - (* crashed: unreachable *) destruct Ht.
Qed.

Lemma exec_ginv : forall sched e f n g,
  ginv e f n g -> lf_den * (n + N.of_nat (length sched) + 1) <= lf_num * 2 ^ 31 ->
  exists e' f', ginv e' f' (n + N.of_nat (length sched)) (exec hash lf_num lf_den compute g sched) /\ ext f f'.
Proof.
  induction sched as [|t r IH]; intros e f n g Hg Hb.
  - exists e, f. cbn. rewrite N.add_0_r. split; [exact Hg|apply ext_refl].
  - cbn [exec length] in *. rewrite Nat2N.inj_succ in *.
    destruct (step_ginv e f n g t Hg) as [e1 [f1 [Hg1 Hx1]]]; [nia|].
    destruct (IH e1 f1 (n + 1) _ Hg1) as [e2 [f2 [Hg2 Hx2]]]; [nia|].
    exists e2, f2. split; [|exact (ext_trans _ _ _ Hx1 Hx2)].
    replace (n + N.succ (N.of_nat (length r))) with (n + 1 + N.of_nat (length r)) by lia. exact Hg2.
Qed.

Lemma init_ginv e0 calls :
  e0 <= 31 -> (forall c, In c calls -> match c with CGet k | CCompute k => k <> 0 end) ->
  ginv e0 (fun _ => 0) 0 (init (2 ^ e0) calls).
Proof.
  intros He Hk. unfold init. constructor; cbn [g_p g_mu g_th g_log].
  - now apply inv_new.
  - cbn. pose proof (pow2_pos e0). lia.
  - intros k H. congruence.
  - cbn. lia.
  - intros _ t. unfold init_th. destruct (nth_error calls t) as [[k|k]|]; reflexivity.
  - discriminate.
  - intros t. unfold init_th. destruct (nth_error calls t) as [c|] eqn:E; [|exact I].
    apply nth_error_In in E. specialize (Hk c E). destruct c; exact Hk.
  - constructor.
  - intros x [].
Qed.

Lemma step_owner g t t' : owner (g_th (step hash lf_num lf_den compute g t) t') = owner (g_th g t').
Proof.
  unfold step. destruct (g_th g t) eqn:Eth; try reflexivity;
    repeat match goal with
           | |- context [match ?x with _ => _ end] => destruct x
           end; cbn [g_th]; unfold set_th; try reflexivity;
    destruct (Nat.eqb_spec t' t) as [->|]; try reflexivity; rewrite Eth; reflexivity.
Qed.

Lemma exec_owner : forall sched g t, owner (g_th (exec hash lf_num lf_den compute g sched) t) = owner (g_th g t).
Proof.
  induction sched as [|t0 r IH]; intros g t; [reflexivity|]. cbn [exec]. rewrite IH. apply step_owner.
Qed.

Lemma init_owner c calls t : owner (g_th (init c calls) t) = nth_error calls t.
Proof.
  unfold init, init_th. cbn [g_th]. destruct (nth_error calls t) as [[k|k]|]; reflexivity.
Qed.

Lemma exec_app : forall s1 s2 g,
  exec hash lf_num lf_den compute g (s1 ++ s2) = exec hash lf_num lf_den compute (exec hash lf_num lf_den compute g s1) s2.
Proof. induction s1 as [|t r IH]; intros s2 g; [reflexivity|]. cbn [app exec]. apply IH. Qed.

Definition keys_nonnil (calls : list call) : Prop :=
  forall c, In c calls -> match c with CGet k | CCompute k => k <> 0 end.

(* MAIN *)
Theorem rcu_linearizable_gen : forall (e0 : N) (calls : list call) (sched : list nat),
  e0 <= 31 -> keys_nonnil calls ->
  lf_den * (N.of_nat (length sched) + 1) <= lf_num * 2 ^ 31 ->
  let g := exec hash lf_num lf_den compute (init (2 ^ e0) calls) sched in
  (* every completed call returned what it returns when it runs alone:
     Compute vt -> exactly `compute vt`;  Get vt -> nil or the program `compute vt` *)
  (forall t k v, g_th g t = DoneG k v -> nth_error calls t = Some (CGet k) /\ (v = 0 \/ compute k = Some v)) /\
  (forall t k r, g_th g t = DoneC k r -> nth_error calls t = Some (CCompute k) /\ r = compute k) /\
  (* add never panicked *)
  (forall t k, g_th g t <> Crashed k) /\
  (* the published map is well-formed and maps every present type to `compute` of that type *)
  (exists e f, inv hash e f (g_p g) /\ (forall k, f k <> 0 -> compute k = Some (f k)) /\
               (forall k, k <> 0 -> Get hash (g_p g) k = f k)) /\
  (* the compile callback succeeded at most once per type *)
  NoDup (g_log g).
Proof.
  intros e0 calls sched He Hk Hb g.
  destruct (exec_ginv sched e0 (fun _ => 0) 0 _ (init_ginv e0 calls He Hk)) as [e [f [Hg _]]]; [lia|].
  fold g in Hg.
  assert (Hown : forall t, owner (g_th g t) = nth_error calls t).
  { intros t. unfold g. rewrite exec_owner. apply init_owner. }
  split; [|split; [|split; [|split]]].
  - intros t k v E. pose proof (gi_th _ _ _ _ Hg t) as Ht. specialize (Hown t). rewrite E in Ht, Hown.
    cbn in Ht, Hown. split; [now symmetry|apply Ht].
  - intros t k r E. pose proof (gi_th _ _ _ _ Hg t) as Ht. specialize (Hown t). rewrite E in Ht, Hown.
    cbn in Ht, Hown. split; [now symmetry|apply Ht].
  - intros t k E. pose proof (gi_th _ _ _ _ Hg t) as Ht. rewrite E in Ht. exact Ht.
  - exists e, f. split; [apply Hg|]. split; [apply Hg|]. intros k Hk0. unfold Get. apply (inv_get hash e). apply Hg. exact Hk0.
  - apply Hg.
Qed.

(* no entry is ever lost or replaced: once a type is served by the published map, every later published map serves
   it with the same program *)
Theorem rcu_no_entry_lost_gen : forall (e0 : N) (calls : list call) (s1 s2 : list nat) (k : N),
  e0 <= 31 -> keys_nonnil calls -> k <> 0 ->
  lf_den * (N.of_nat (length (s1 ++ s2)) + 1) <= lf_num * 2 ^ 31 ->
  let g1 := exec hash lf_num lf_den compute (init (2 ^ e0) calls) s1 in
  let g2 := exec hash lf_num lf_den compute (init (2 ^ e0) calls) (s1 ++ s2) in
  Get hash (g_p g1) k <> 0 -> Get hash (g_p g2) k = Get hash (g_p g1) k.
Proof.
  intros e0 calls s1 s2 k He Hk Hk0 Hb g1 g2. rewrite app_length, Nat2N.inj_add in Hb.
  destruct (exec_ginv s1 e0 (fun _ => 0) 0 _ (init_ginv e0 calls He Hk)) as [e1 [f1 [Hg1 _]]]; [nia|].
  fold g1 in Hg1.
  destruct (exec_ginv s2 e1 f1 _ g1 Hg1) as [e2 [f2 [Hg2 Hx]]]; [nia|].
  unfold g2. rewrite exec_app. fold g1. unfold Get.
  rewrite (inv_get hash e1 f1 _ k (gi_inv _ _ _ _ Hg1) Hk0), (inv_get hash e2 f2 _ k (gi_inv _ _ _ _ Hg2) Hk0).
  intros Hne. now apply Hx.
Qed.

End RcuProofs.
