(* C03/C04 - the reference encoder is total on typed values of the fragment (given fuel beyond the nesting depth). *)
From Coq Require Import List NArith ZArith Bool Lia.
From SV.Enc Require Import Prims Ty Val StdEnc TyLemmas Frag EncProofs.
Import ListNotations.
Local Open Scope nat_scope.

Section Total.
  Variable e : env.
  Variable nn : bool.
  Variable F : kind -> N -> option bytes -> Prop.
  Hypothesis Ffin : forall k b txt, F k b txt -> exists t, txt = Some t.
  Notation has_type := (has_type F).

  Lemma scalar_total : forall k f v addr, scalar_kind k = true -> has_type (TPrim k) v ->
    exists res, std_enc e Qraw nn (S f) (TPrim k) v addr false = SOk res.
  Proof.
    intros k f v addr Hk Hv.
    inversion Hv as [b|k' z Hr|k' bits txt Hk' Hf|s| | | | | |]; subst.
    - destruct addr; cbn; eexists; reflexivity.
    - unfold int_range_ok in Hr. destruct k; cbn in Hr; try contradiction; destruct addr; cbn; eexists; reflexivity.
    - destruct (Ffin _ _ _ Hf) as [x ->]. destruct Hk' as [-> | ->]; destruct addr; cbn; eexists; reflexivity.
    - destruct addr; cbn; eexists; reflexivity.
  Qed.

  Lemma enc_list_total : forall f el addr l,
    (forall x, In x l -> exists a, std_enc e Qraw nn f el x addr false = SOk a) -> exists items, enc_list e nn f el addr l = SOk items.
  Proof.
    intros f el addr. induction l as [|x r IH]; intro H; [exists []; reflexivity|].
    destruct (H x (or_introl eq_refl)) as [a Ha]. destruct (IH (fun y Hy => H y (or_intror Hy))) as [b Hb].
    rewrite enc_list_unfold, Ha, Hb. cbn [sbind]. eexists; reflexivity.
  Qed.

  Lemma need_elem : forall l x f, In x l -> need_list l < f -> need x < f.
  Proof. intros l x f Hin H. pose proof (need_list_in l x Hin). lia. Qed.

  Lemma scalar_total_q : forall k f v addr q, scalar_kind k = true -> has_type (TPrim k) v ->
    exists res, std_enc e Qraw nn (S f) (TPrim k) v addr q = SOk res.
  Proof.
    intros k f v addr q Hk Hv.
    inversion Hv as [b|k' z Hr|k' bits txt Hk' Hf|s| | | | | |]; subst.
    - destruct addr, q; cbn; eexists; reflexivity.
    - unfold int_range_ok in Hr. destruct k; cbn in Hr; try contradiction; destruct addr, q; cbn; eexists; reflexivity.
    - destruct (Ffin _ _ _ Hf) as [x ->]. destruct Hk' as [-> | ->]; destruct addr, q; cbn; eexists; reflexivity.
    - destruct addr, q; cbn; eexists; reflexivity.
  Qed.

  Lemma enc_fields_total : forall sz ph fsall vs f addr, layout_ok e 0 ph sz -> length vs = length ph ->
    (forall k o t x, nth_error ph k = Some (o, t) -> nth_error vs k = Some x -> exists a, std_enc e Qraw nn f t x addr false = SOk a) ->
    (forall k o t x, nth_error ph k = Some (o, t) -> nth_error vs k = Some x -> quotable t = true ->
       exists a, std_enc e Qraw nn f t x addr true = SOk a) ->
    forall fs, Forall (field_ok ph) fs -> forall first, exists items, enc_fields e nn f (TStruct sz ph fsall) (VStruct vs) addr fs first = SOk items.
  Proof.
    intros sz ph fsall vs f addr Hlay Hlen Hall Hallq fs Hfs. induction Hfs as [|fd r (o & Hp & Ho & Hin) Hr IH]; intro first.
    - exists []. reflexivity.
    - destruct (opts_ok_bits fd Ho) as (Hoz & Hoe & Hsq).
      destruct (In_nth_error _ _ Hin) as [k Hk].
      assert (Hkl : k < length vs) by (rewrite Hlen; apply nth_error_Some; congruence).
      destruct (nth_error vs k) as [x|] eqn:Hx; [|apply nth_error_None in Hx; lia].
      rewrite (enc_fields_cons e nn sz ph fsall Hlay f vs addr fd r first o k x Hp Hoz Hk Hx).
      destruct (F_omitempty fd && is_empty_value e (f_type fd) x); [apply IH|].
      assert (Ha : exists a, std_enc e Qraw nn f (f_type fd) x addr (F_stringize fd) = SOk a).
      { destruct (F_stringize fd) eqn:Es; [|eapply Hall; eassumption]. destruct (Hsq eq_refl) as [Hqt _]. eapply Hallq; eassumption. }
      destruct Ha as [a Ha]. destruct (IH false) as [rest Hrest]. rewrite Ha, Hrest. cbn [sbind]. eexists; reflexivity.
  Qed.

  Theorem std_total : forall t, frag e t -> forall v fuel addr, has_type t v -> need v < fuel ->
    exists res, std_enc e Qraw nn fuel t v addr false = SOk res.
  Proof.
    induction t using ty_ind'; intros Hf v fuel addr Hv Hn; cbn [frag] in Hf; try contradiction;
      (destruct fuel as [|f]; [lia|]).
    - apply scalar_total; assumption.
    - inversion Hv as [ | | | | | | | |n0 el0 l Hlen Hall| ]; subst.
      rewrite (std_enc_array e nn f _ t l addr false Hf).
      change (need (VArr l)) with (S (need_list l)) in Hn.
      destruct (enc_list_total f t addr l) as [items Hi].
      { intros x Hx. apply IHt; [exact Hf|apply Hall; exact Hx|eapply need_elem; [exact Hx|lia]]. }
      rewrite Hi. cbn [sbind]. eexists; reflexivity.
    - inversion Hv as [ | | | | | |el0|el0 l Hall| | ]; subst.
      + destruct addr; cbn; eexists; reflexivity.
      + change (need (VSlice (Some l))) with (S (need_list l)) in Hn.
        destruct (is_simple_byte e t) eqn:Esb.
        * assert (Eel : t = TPrim KUint8).
          { unfold is_simple_byte in Esb. apply andb_true_iff in Esb. destruct Esb as [Esb _]. apply andb_true_iff in Esb. destruct Esb as [Esb _].
            clear - Hf Esb. destruct t as [k| | | | | | |]; cbn in Hf; try contradiction; try discriminate Esb. destruct k; try discriminate Esb. reflexivity. }
          subst t.
          assert (Hb : exists b, (fix bs (l : list val) : option bytes :=
                           match l with
                           | [] => Some []
                           | x :: r => match strip x, bs r with VInt z, Some b => Some (Z.to_N z :: b) | _, _ => None end
                           end) l = Some b).
          { clear - Hall. induction l as [|x l IH]; [exists []; reflexivity|].
            destruct IH as [b Hb]; [intros y Hy; apply Hall; right; exact Hy|].
            pose proof (Hall x (or_introl eq_refl)) as Hx. inversion Hx as [ |k z Hr|k bits txt Hk| | | | | | | ]; subst.
            - rewrite Hb. cbn [strip]. eexists; reflexivity.
            - destruct Hk; discriminate. }
          destruct Hb as [b Hb]. destruct addr; cbn; rewrite Hb; eexists; reflexivity.
        * rewrite (std_enc_slice e nn f t l addr false Hf Esb).
          destruct (enc_list_total f t true l) as [items Hi].
          { intros x Hx. apply IHt; [exact Hf|apply Hall; exact Hx|eapply need_elem; [exact Hx|lia]]. }
          rewrite Hi. cbn [sbind]. eexists; reflexivity.
    - assert (Hi : forall m, implements e (TPtr t) m = false) by (intro m; apply (frag_implements e e t m Hf)).
      inversion Hv as [ | | | |el0|el0 x Hx| | | | ]; subst.
      + cbn [std_enc]. rewrite !Hi. cbn. eexists; reflexivity.
      + cbn [std_enc]. rewrite !Hi. cbn. apply IHt; [exact Hf|exact Hx|]. cbn [need] in Hn. lia.
    - destruct Hf as (Hall & Hlay & Hfs).
      inversion Hv as [ | | | | | | | | |sz0 ph0 fs0 vs Hlen Hty]; subst.
      change (need (VStruct vs)) with (S (need_list vs)) in Hn.
      rewrite std_enc_struct.
      destruct (enc_fields_total s ph fs vs f addr Hlay Hlen) with (fs := fs) (first := true) as [items Hi]; [| |exact Hfs|].
      2: { intros k o t x Hk Hx Hqt. destruct t as [kq| | | | | | |]; try discriminate Hqt.
           destruct f as [|f']; [pose proof (need_list_in vs x (nth_error_In _ _ Hx)); lia|].
           apply scalar_total_q; [exact Hqt|eapply Hty; eassumption]. }
      { intros k o t x Hk Hx. rewrite Forall_forall in H. specialize (H (o, t) (nth_error_In _ _ Hk)). cbn in H.
        apply H; [eapply frag_all_in; [exact Hall|eapply nth_error_In; exact Hk]|eapply Hty; eassumption|].
        eapply need_elem; [eapply nth_error_In; exact Hx|lia]. }
      rewrite Hi. cbn [sbind]. eexists; reflexivity.
  Qed.
End Total.
