(* C03/C12/C04 - the two executors as instances of the machine of VM.v.
   prims_vm : what vm/vm.go calls (alg/spec.go: strconv for integers, F64toa/F32toa with their `v == 0` branch,
              vars.Stack.Push) and the option bits its `case ir.OP_x` clauses test;
   prims_jit: what the x86 code calls (native i64toa/u64toa - the fastint.h model of Num/IntPrint.v -, native
              f64toa/f32toa, save_state) and the option bits its _asm_OP_x functions test.
   Bits and stack bounds come from Gen/EncFlags.v, regenerated from /repo on every run. *)
From Coq Require Import List NArith ZArith Bool String.
From SV.Gen Require Import EncFlags.
From SV.Num Require IntPrint.
From SV.Enc Require Import Prims Ty Val IR Compile VM.
Import ListNotations.

Fixpoint assoc (tab : list (string * list N)) (op : string) : option (list N) :=
  match tab with
  | [] => None
  | (k, v) :: r => if String.eqb k op then Some v else assoc r op
  end.

(* the single option bit an op tests; 999 (never set in an option word) when the source does not have exactly one *)
Definition bit_of (tab : list (string * list N)) (op : string) : N :=
  match assoc tab op with Some [b] => b | _ => 999%N end.

(* OP_recurse names its bit twice (cleared, then set when pv) *)
Definition bit_of2 (tab : list (string * list N)) (op : string) : N :=
  match assoc tab op with Some [b; b'] => if (b =? b')%N then b else 999%N | _ => 999%N end.

(* evaluated here so that the extracted model does not carry Coq strings *)
Definition vm_b_f32 : N := Eval vm_compute in bit_of vm_flag_tests "OP_f32".
Definition vm_b_f64 : N := Eval vm_compute in bit_of vm_flag_tests "OP_f64".
Definition vm_b_map_write_key : N := Eval vm_compute in bit_of vm_flag_tests "OP_map_write_key".
Definition vm_b_empty_arr : N := Eval vm_compute in bit_of vm_flag_tests "OP_empty_arr".
Definition vm_b_empty_obj : N := Eval vm_compute in bit_of vm_flag_tests "OP_empty_obj".
Definition vm_b_recurse : N := Eval vm_compute in bit_of2 vm_flag_tests "OP_recurse".
Definition vm_b_eface : N := Eval vm_compute in bit_of vm_flag_tests "OP_eface".
Definition vm_b_iface : N := Eval vm_compute in bit_of vm_flag_tests "OP_iface".
Definition jit_b_f32 : N := Eval vm_compute in bit_of jit_flag_tests "OP_f32".
Definition jit_b_f64 : N := Eval vm_compute in bit_of jit_flag_tests "OP_f64".
Definition jit_b_map_write_key : N := Eval vm_compute in bit_of jit_flag_tests "OP_map_write_key".
Definition jit_b_empty_arr : N := Eval vm_compute in bit_of jit_flag_tests "OP_empty_arr".
Definition jit_b_empty_obj : N := Eval vm_compute in bit_of jit_flag_tests "OP_empty_obj".
Definition jit_b_recurse : N := Eval vm_compute in bit_of2 jit_flag_tests "OP_recurse".
Definition jit_b_eface : N := Eval vm_compute in bit_of jit_flag_tests "OP_eface".
Definition jit_b_iface : N := Eval vm_compute in bit_of jit_flag_tests "OP_iface".
Definition vm_frames : N := Eval vm_compute in vm_stack_frames.
Definition jit_frames : N := Eval vm_compute in jit_stack_frames.

Definition is_zero_f64 (bits : N) : bool := (bits mod 2 ^ 63 =? 0)%N.
Definition is_zero_f32 (bits : N) : bool := (bits mod 2 ^ 31 =? 0)%N.

Definition prims_vm : prims := {|
  p_i64toa := itoa;                                                    (* strconv.AppendInt *)
  p_u64toa := fun z => utoa (Z.to_N z);                                (* strconv.AppendUint *)
  (* alg.F64toa / F32toa after fix b09723f: if v == 0 { if math.Signbit(v) { "-0" } else { "0" } } *)
  p_f64toa := fun bits txt => if is_zero_f64 bits then (if (bits =? 0)%N then [48%N] else [45%N; 48%N]) else txt;
  p_f32toa := fun bits txt => if is_zero_f32 bits then (if (bits =? 0)%N then [48%N] else [45%N; 48%N]) else txt;
  p_quote := quote;
  p_stack := vm_frames;
  b_f32 := vm_b_f32; b_f64 := vm_b_f64; b_map_write_key := vm_b_map_write_key;
  b_empty_arr := vm_b_empty_arr; b_empty_obj := vm_b_empty_obj; b_recurse := vm_b_recurse;
  b_eface := vm_b_eface; b_iface := vm_b_iface |}.

Definition prims_jit : prims := {|
  p_i64toa := IntPrint.i64toa;                                         (* native i64toa (fastint.h) *)
  p_u64toa := IntPrint.u64toa;
  p_f64toa := fun bits txt => txt;                                     (* native f64toa: shortest digits, sign kept *)
  p_f32toa := fun bits txt => txt;
  p_quote := quote;
  p_stack := jit_frames;
  b_f32 := jit_b_f32; b_f64 := jit_b_f64; b_map_write_key := jit_b_map_write_key;
  b_empty_arr := jit_b_empty_arr; b_empty_obj := jit_b_empty_obj; b_recurse := jit_b_recurse;
  b_eface := jit_b_eface; b_iface := jit_b_iface |}.

(* the hand-written constants of the model are the generated ones *)
Lemma model_bits_tied :
  BitSortMapKeys = gen_BitSortMapKeys /\ BitEscapeHTML = gen_BitEscapeHTML /\ BitCompactMarshaler = gen_BitCompactMarshaler /\
  BitNoQuoteTextMarshaler = gen_BitNoQuoteTextMarshaler /\ BitNoNullSliceOrMap = gen_BitNoNullSliceOrMap /\
  BitValidateString = gen_BitValidateString /\ BitNoValidateJSONMarshaler = gen_BitNoValidateJSONMarshaler /\
  BitNoEncoderNewline = gen_BitNoEncoderNewline /\ BitEncodeNullForInfOrNan = gen_BitEncodeNullForInfOrNan /\
  BitPointerValue = gen_BitPointerValue /\
  MaxStack = gen_MaxStack /\ MAX_ILBUF = gen_MAX_ILBUF /\ N.of_nat MAX_FIELDS = gen_MAX_FIELDS /\
  assoc shared_flag_tests "EncodeJsonMarshaler" = Some [BitCompactMarshaler; BitNoValidateJSONMarshaler] /\
  assoc shared_flag_tests "EncodeTextMarshaler" = Some [BitNoQuoteTextMarshaler] /\
  assoc shared_flag_tests "IteratorStart" = Some [BitSortMapKeys].
Proof. repeat split; reflexivity. Qed.
