(* C03/C12/C04 - the type universe of the encoder model.  The same descriptor language is produced by the Go
   harness (harness/internal/tygen: Desc) from real reflect.Types.  Struct types carry their physical layout
   (size, offset and type of every Go field, as reported by reflect) and the *resolved* JSON field list
   (internal/resolver.ResolveStruct: name, option bits, type, offsets path with dereferences for embedded pointers). *)
From Coq Require Import List NArith ZArith Bool Lia.
From SV.Enc Require Import Prims.
Import ListNotations.
Local Open Scope N_scope.

Inductive kind :=
| KBool | KInt | KInt8 | KInt16 | KInt32 | KInt64
| KUint | KUint8 | KUint16 | KUint32 | KUint64 | KUintptr
| KFloat32 | KFloat64 | KString
| KComplex64 | KComplex128 | KChan | KFunc | KUnsafePointer.

(* interface types: interface{} ; a non-empty interface without Marshal methods ; json.Marshaler ; encoding.TextMarshaler *)
Inductive ikind := IfEface | IfPlain | IfJson | IfText.

Inductive ty :=
| TPrim (k : kind)
| TArray (n : nat) (e : ty)
| TSlice (e : ty)
| TMap (k e : ty)
| TPtr (e : ty)
| TIface (k : ikind)
| TStruct (size : N) (phys : list (N * ty)) (fields : list field)
| TNamed (id : N)
with field :=
| Field (name : bytes) (opts : N) (fty : ty) (path : list (N * bool)).

Definition f_name (f : field) := let 'Field n _ _ _ := f in n.
Definition f_opts (f : field) := let 'Field _ o _ _ := f in o.
Definition f_type (f : field) := let 'Field _ _ t _ := f in t.
Definition f_path (f : field) := let 'Field _ _ _ p := f in p.

(* resolver.FieldOpts *)
Definition F_omitempty (f : field) : bool := N.testbit (f_opts f) 0.
Definition F_stringize (f : field) : bool := N.testbit (f_opts f) 1.
Definition F_omitzero (f : field) : bool := N.testbit (f_opts f) 2.

(* ---- named types: the environment *)
Record ninfo := { n_meths : N;      (* bit0 MarshalJSON value receiver, bit1 MarshalJSON pointer receiver,
                                       bit2 MarshalText value receiver, bit3 MarshalText pointer receiver *)
                  n_isnum : bool;   (* the type is json.Number *)
                  n_size : N;       (* reflect.Type.Size() *)
                  n_body : ty }.    (* underlying type (never a TNamed) *)
Definition env := list (N * ninfo).

Fixpoint lookup (e : env) (id : N) : option ninfo :=
  match e with
  | [] => None
  | (i, x) :: r => if i =? id then Some x else lookup r id
  end.

Definition dummy_info := {| n_meths := 0; n_isnum := false; n_size := 0; n_body := TPrim KUnsafePointer |}.
Definition info (e : env) (id : N) : ninfo := match lookup e id with Some x => x | None => dummy_info end.

(* the structure of a type: named types are looked through once *)
Definition unfold (e : env) (t : ty) : ty :=
  match t with TNamed id => n_body (info e id) | _ => t end.

(* ---- decidable equality (reflect.Type identity on the universe) *)
Definition kind_eqb (a b : kind) : bool :=
  match a, b with
  | KBool, KBool | KInt, KInt | KInt8, KInt8 | KInt16, KInt16 | KInt32, KInt32 | KInt64, KInt64
  | KUint, KUint | KUint8, KUint8 | KUint16, KUint16 | KUint32, KUint32 | KUint64, KUint64 | KUintptr, KUintptr
  | KFloat32, KFloat32 | KFloat64, KFloat64 | KString, KString | KComplex64, KComplex64 | KComplex128, KComplex128
  | KChan, KChan | KFunc, KFunc | KUnsafePointer, KUnsafePointer => true
  | _, _ => false
  end.

Definition ikind_eqb (a b : ikind) : bool :=
  match a, b with
  | IfEface, IfEface | IfPlain, IfPlain | IfJson, IfJson | IfText, IfText => true
  | _, _ => false
  end.

Fixpoint path_eqb (a b : list (N * bool)) : bool :=
  match a, b with
  | [], [] => true
  | (x, d) :: a', (y, d') :: b' => (x =? y) && Bool.eqb d d' && path_eqb a' b'
  | _, _ => false
  end.

Fixpoint ty_eqb (a b : ty) {struct a} : bool :=
  match a, b with
  | TPrim k, TPrim k' => kind_eqb k k'
  | TArray n e, TArray n' e' => Nat.eqb n n' && ty_eqb e e'
  | TSlice e, TSlice e' => ty_eqb e e'
  | TMap k e, TMap k' e' => ty_eqb k k' && ty_eqb e e'
  | TPtr e, TPtr e' => ty_eqb e e'
  | TIface k, TIface k' => ikind_eqb k k'
  | TStruct s ph fs, TStruct s' ph' fs' =>
      (s =? s') &&
      (fix phys_eqb (x y : list (N * ty)) : bool :=
         match x, y with
         | [], [] => true
         | (o, t) :: x', (o', t') :: y' => (o =? o') && ty_eqb t t' && phys_eqb x' y'
         | _, _ => false
         end) ph ph' &&
      (fix fields_eqb (x y : list field) : bool :=
         match x, y with
         | [], [] => true
         | f :: x', g :: y' =>
             (match f, g with
              | Field n o t p, Field n' o' t' p' => bytes_eqb n n' && (o =? o') && ty_eqb t t' && path_eqb p p'
              end) && fields_eqb x' y'
         | _, _ => false
         end) fs fs'
  | TNamed i, TNamed j => i =? j
  | _, _ => false
  end.

Definition mem_ty (t : ty) (l : list ty) : bool := existsb (ty_eqb t) l.

(* ---- reflect.Kind of a type *)
Inductive rkind :=
| RPrim (k : kind) | RArray | RInterface | RMap | RPtr | RSlice | RStruct.

Definition rkind_of (e : env) (t : ty) : rkind :=
  match unfold e t with
  | TPrim k => RPrim k
  | TArray _ _ => RArray
  | TSlice _ => RSlice
  | TMap _ _ => RMap
  | TPtr _ => RPtr
  | TIface _ => RInterface
  | TStruct _ _ _ => RStruct
  | TNamed _ => RPrim KUnsafePointer   (* ill-formed environment *)
  end.

Definition is_kind (e : env) (t : ty) (k : kind) : bool :=
  match rkind_of e t with RPrim k' => kind_eqb k k' | _ => false end.

(* ---- sizes on amd64 (reflect.Type.Size) *)
Definition kind_size (k : kind) : N :=
  match k with
  | KBool | KInt8 | KUint8 => 1
  | KInt16 | KUint16 => 2
  | KInt32 | KUint32 | KFloat32 => 4
  | KInt | KInt64 | KUint | KUint64 | KUintptr | KFloat64 | KComplex64 | KChan | KFunc | KUnsafePointer => 8
  | KString | KComplex128 => 16
  end.

Fixpoint sizeof (e : env) (t : ty) : N :=
  match t with
  | TPrim k => kind_size k
  | TArray n el => N.of_nat n * sizeof e el
  | TSlice _ => 24
  | TMap _ _ => 8
  | TPtr _ => 8
  | TIface _ => 16
  | TStruct s _ _ => s
  | TNamed id => n_size (info e id)
  end.

(* ---- method sets *)
Definition meths (e : env) (t : ty) : N := match t with TNamed id => n_meths (info e id) | _ => 0 end.

Inductive miface := MJson | MText.
Definition bit_val (m : miface) : N := match m with MJson => 0 | MText => 2 end.
Definition bit_ptr (m : miface) : N := match m with MJson => 1 | MText => 3 end.

(* vt.Implements(m): the value method set of vt *)
Definition implements (e : env) (t : ty) (m : miface) : bool :=
  match t with
  | TNamed id => N.testbit (n_meths (info e id)) (bit_val m)
  | TPtr (TNamed id) => N.testbit (n_meths (info e id)) (bit_val m) || N.testbit (n_meths (info e id)) (bit_ptr m)
  | TIface IfJson => match m with MJson => true | MText => false end
  | TIface IfText => match m with MText => true | MJson => false end
  | _ => false
  end.

(* reflect.PtrTo(vt).Implements(m) *)
Definition ptr_implements (e : env) (t : ty) (m : miface) : bool := implements e (TPtr t) m.

Definition is_number (e : env) (t : ty) : bool := match t with TNamed id => n_isnum (info e id) | _ => false end.

(* vars.IsSimpleByte *)
Definition is_simple_byte (e : env) (t : ty) : bool :=
  is_kind e t KUint8 &&
  negb (implements e t MJson || implements e t MText) &&
  negb (ptr_implements e t MJson || ptr_implements e t MText).

(* number of Go fields of a struct type (reflect.Type.NumField) *)
Definition num_field (e : env) (t : ty) : nat :=
  match unfold e t with TStruct _ ph _ => length ph | _ => O end.
