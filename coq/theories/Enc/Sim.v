(* C03 - small-step reasoning about the machine of VM.v: step counting, the 2^n fuel of `run`, frames. *)
From Coq Require Import List NArith ZArith Bool Lia PeanoNat.
From SV.Enc Require Import Prims Ty Val IR Compile JsonLite MapSort VM.
Import ListNotations.
Local Open Scope nat_scope.

Section Sim.
  Variable P : prims.
  Variable e : env.
  Variable co : copts.

  Notation step := (step P e co).
  Notation run := (run P e co).

  (* k steps, early exit on a final outcome *)
  Fixpoint iter (k : nat) (s : state) : outcome :=
    match k with
    | O => Running s
    | S k' => match step s with Running s' => iter k' s' | o => o end
    end.

  Lemma iter_add : forall a b s, iter (a + b) s = match iter a s with Running s' => iter b s' | o => o end.
  Proof.
    induction a as [|a IH]; intros b s; cbn [Nat.add iter]; [reflexivity|].
    destruct (step s); try reflexivity. apply IH.
  Qed.

  Lemma run_iter : forall n s, run n s = iter (2 ^ n) s.
  Proof.
    induction n as [|n IH]; intro s.
    - cbn [VM.run Nat.pow iter]. destruct (step s); reflexivity.
    - cbn [VM.run]. replace (2 ^ S n) with (2 ^ n + 2 ^ n) by (rewrite Nat.pow_succ_r'; lia).
      rewrite iter_add. rewrite IH. destruct (iter (2 ^ n) s); try reflexivity. apply IH.
  Qed.

  (* exactly k steps from s to s' *)
  Inductive steps : nat -> state -> state -> Prop :=
  | steps_O : forall s, steps 0 s s
  | steps_S : forall k s s1 s2, step s = Running s1 -> steps k s1 s2 -> steps (S k) s s2.

  Lemma steps_trans : forall a b s1 s2 s3, steps a s1 s2 -> steps b s2 s3 -> steps (a + b) s1 s3.
  Proof.
    induction 1; intro H2; cbn [Nat.add]; [exact H2|]. econstructor; [eassumption|]. apply IHsteps. exact H2.
  Qed.

  Lemma steps_one : forall s s', step s = Running s' -> steps 1 s s'.
  Proof. intros. econstructor; [eassumption|constructor]. Qed.

  Lemma iter_steps : forall k s s', steps k s s' -> forall j, iter (k + j) s = iter j s'.
  Proof.
    induction 1; intro j; cbn [Nat.add iter]; [reflexivity|]. rewrite H. apply IHsteps.
  Qed.

  Definition final (o : outcome) : Prop := forall s, o <> Running s.

  Lemma iter_final : forall k s s' o, steps k s s' -> step s' = o -> final o -> forall m, k < m -> iter m s = o.
  Proof.
    intros k s s' o Hs Ho Hf m Hm.
    replace m with (k + S (m - k - 1)) by lia. rewrite (iter_steps _ _ _ Hs). cbn [iter]. rewrite Ho.
    destruct o; try reflexivity. exfalso. eapply Hf. reflexivity.
  Qed.

  Lemma pow2_gt : forall k, k < 2 ^ k.
  Proof. intro k. apply Nat.pow_gt_lin_r. lia. Qed.

  Theorem run_complete2 : forall k s s' o, steps k s s' -> step s' = o -> final o -> forall n, k < 2 ^ n -> run n s = o.
  Proof. intros k s s' o Hs Ho Hf n Hn. rewrite run_iter. eapply iter_final; eassumption. Qed.

  (* a final outcome does not change with more fuel *)
  Lemma iter_mono : forall a s o, iter a s = o -> final o -> forall b, a <= b -> iter b s = o.
  Proof.
    induction a as [|a IH]; intros s o H Hf b Hb.
    - cbn in H. subst o. exfalso. eapply Hf. reflexivity.
    - destruct b as [|b]; [lia|]. cbn [iter] in *. destruct (step s) eqn:E; try exact H.
      eapply IH; [exact H|exact Hf|lia].
  Qed.

  Lemma run_mono : forall n s o, run n s = o -> final o -> forall m, n <= m -> run m s = o.
  Proof.
    intros n s o H Hf m Hm. rewrite run_iter in *. eapply iter_mono; [exact H|exact Hf|].
    apply Nat.pow_le_mono_r; lia.
  Qed.

  Theorem run_complete : forall k s s' o, steps k s s' -> step s' = o -> final o -> forall n, k <= n -> run n s = o.
  Proof.
    intros k s s' o Hs Ho Hf n Hn. rewrite run_iter. eapply iter_final; try eassumption.
    pose proof (pow2_gt n). assert (2 ^ k <= 2 ^ n) by (apply Nat.pow_le_mono_r; lia). pose proof (pow2_gt k). lia.
  Qed.
End Sim.
