(* C03 - structural facts about the type universe: nested induction, reflexivity of ty_eqb, a size measure it preserves. *)
From Coq Require Import List NArith ZArith Bool Lia.
From SV.Enc Require Import Prims Ty.
Import ListNotations.

Section TyInd.
  Variable P : ty -> Prop.
  Hypothesis Hprim : forall k, P (TPrim k).
  Hypothesis Harr : forall n e, P e -> P (TArray n e).
  Hypothesis Hslice : forall e, P e -> P (TSlice e).
  Hypothesis Hmap : forall k e, P k -> P e -> P (TMap k e).
  Hypothesis Hptr : forall e, P e -> P (TPtr e).
  Hypothesis Hiface : forall k, P (TIface k).
  Hypothesis Hstruct : forall s ph fs, Forall (fun ot => P (snd ot)) ph -> Forall (fun f => P (f_type f)) fs -> P (TStruct s ph fs).
  Hypothesis Hnamed : forall id, P (TNamed id).

  Fixpoint ty_ind' (t : ty) : P t :=
    match t with
    | TPrim k => Hprim k
    | TArray n e => Harr n e (ty_ind' e)
    | TSlice e => Hslice e (ty_ind' e)
    | TMap k e => Hmap k e (ty_ind' k) (ty_ind' e)
    | TPtr e => Hptr e (ty_ind' e)
    | TIface k => Hiface k
    | TStruct s ph fs =>
        Hstruct s ph fs
          ((fix go (l : list (N * ty)) : Forall (fun ot => P (snd ot)) l :=
              match l with
              | [] => Forall_nil _
              | (o, t) :: r => Forall_cons (o, t) (ty_ind' t) (go r)
              end) ph)
          ((fix go (l : list field) : Forall (fun f => P (f_type f)) l :=
              match l with
              | [] => Forall_nil _
              | Field n o t p :: r => Forall_cons (Field n o t p) (ty_ind' t) (go r)
              end) fs)
    | TNamed id => Hnamed id
    end.
End TyInd.

Lemma kind_eqb_refl : forall k, kind_eqb k k = true. Proof. destruct k; reflexivity. Qed.
Lemma ikind_eqb_refl : forall k, ikind_eqb k k = true. Proof. destruct k; reflexivity. Qed.
Lemma path_eqb_refl : forall p, path_eqb p p = true.
Proof. induction p as [|[o d] r IH]; [reflexivity|]. cbn. rewrite N.eqb_refl, IH. destruct d; reflexivity. Qed.
Lemma bytes_eqb_refl : forall b, bytes_eqb b b = true.
Proof. induction b as [|x b IH]; [reflexivity|]. cbn. rewrite N.eqb_refl, IH. reflexivity. Qed.

Lemma ty_eqb_refl : forall t, ty_eqb t t = true.
Proof.
  induction t using ty_ind'; cbn [ty_eqb].
  - apply kind_eqb_refl.
  - rewrite Nat.eqb_refl, IHt. reflexivity.
  - exact IHt.
  - rewrite IHt1, IHt2. reflexivity.
  - exact IHt.
  - apply ikind_eqb_refl.
  - rewrite N.eqb_refl. cbn [andb].
    assert (Hph : (fix phys_eqb (x y : list (N * ty)) : bool :=
                     match x, y with
                     | [], [] => true
                     | (o, t) :: x', (o', t') :: y' => (o =? o')%N && ty_eqb t t' && phys_eqb x' y'
                     | _, _ => false
                     end) ph ph = true).
    { induction H as [|[o t] r Ht Hr IH]; [reflexivity|]. cbn in Ht. rewrite N.eqb_refl, Ht, IH. reflexivity. }
    rewrite Hph. cbn [andb].
    induction H0 as [|[n o t p] r Ht Hr IH]; [reflexivity|]. cbn in Ht.
    rewrite bytes_eqb_refl, N.eqb_refl, Ht, path_eqb_refl, IH. reflexivity.
  - apply N.eqb_refl.
Qed.

(* a size measure: every component is smaller than the whole *)
Fixpoint tsize (t : ty) : nat :=
  match t with
  | TArray _ e | TSlice e | TPtr e => S (tsize e)
  | TMap k e => S (tsize k + tsize e)
  | TStruct _ ph _ => S ((fix sum (l : list (N * ty)) : nat := match l with [] => 0 | (_, t) :: r => tsize t + sum r end) ph)
  | _ => 1
  end.

Definition phys_size (ph : list (N * ty)) : nat :=
  (fix sum (l : list (N * ty)) : nat := match l with [] => 0 | (_, t) :: r => tsize t + sum r end) ph.

Lemma tsize_struct : forall s ph fs, tsize (TStruct s ph fs) = S (phys_size ph). Proof. reflexivity. Qed.

Lemma phys_size_in : forall ph o t, In (o, t) ph -> tsize t <= phys_size ph.
Proof.
  induction ph as [|[o' t'] r IH]; intros o t H; [destruct H|].
  cbn [phys_size]. destruct H as [H|H]; [inversion H; subst; lia|]. specialize (IH o t H). unfold phys_size in IH. lia.
Qed.

Lemma ty_eqb_tsize : forall a b, ty_eqb a b = true -> tsize a = tsize b.
Proof.
  induction a using ty_ind'; intros b Hb; destruct b; cbn [ty_eqb] in Hb; try discriminate Hb; cbn [tsize]; try reflexivity.
  - apply andb_true_iff in Hb. destruct Hb as [_ Hb]. f_equal. apply IHa. exact Hb.
  - f_equal. apply IHa. exact Hb.
  - apply andb_true_iff in Hb. destruct Hb as [H1 H2]. f_equal. rewrite (IHa1 _ H1), (IHa2 _ H2). reflexivity.
  - f_equal. apply IHa. exact Hb.
  - apply andb_true_iff in Hb. destruct Hb as [Hb _]. apply andb_true_iff in Hb. destruct Hb as [_ Hb]. f_equal.
    revert phys Hb. induction H as [|[o t] r Ht Hr IH]; intros [|[o' t'] r'] Hb; try discriminate Hb; [reflexivity|].
    apply andb_true_iff in Hb. destruct Hb as [Hb Hb2]. apply andb_true_iff in Hb. destruct Hb as [_ Hb].
    cbn in Ht. rewrite (Ht _ Hb). f_equal. apply IH. exact Hb2.
Qed.
