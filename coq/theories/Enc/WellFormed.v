(* C04 - well-formedness of the bytes the reference encoder (and hence, by C03_code_ok_frag, the machine) produces for the
   proved fragment: they are a strict RFC 8259 value in the sense of Json/Grammar.v (property C02's grammar), which
   Json/Wrappers.valid_complete shows the validator model accepts. *)
From Coq Require Import List NArith ZArith Bool Lia.
From SV.Num Require Import Dec IntPrintProofs IntPrintExact.
From SV.Enc Require Import Prims Ty Val StdEnc TyLemmas Frag IntBridge EncProofs Finish.
From SV.Json Require Import Chars Grammar Fsm Wrappers.
Import ListNotations.
Local Open Scope nat_scope.

(* ---- monotonicity of the strict grammar in the depth index *)
Lemma strict_mono_all :
  (forall d v, strict d v -> forall d', d <= d' -> strict d' v) /\
  (forall d t, strict_atail d t -> forall d', d <= d' -> strict_atail d' t) /\
  (forall d t, strict_otail d t -> forall d', d <= d' -> strict_otail d' t).
Proof.
  apply strict_mutind; intros;
  repeat match goal with
  | Hle : S _ <= ?h' |- _ => is_var h'; destruct h'; [lia|apply le_S_n in Hle]
  end;
  (constructor; solve [auto with arith]).
Qed.
Lemma strict_mono : forall d d' v, strict d v -> d <= d' -> strict d' v.
Proof. intros. eapply (proj1 strict_mono_all); eauto. Qed.
Lemma atail_mono : forall d d' t, strict_atail d t -> d <= d' -> strict_atail d' t.
Proof. intros. eapply (proj1 (proj2 strict_mono_all)); eauto. Qed.
Lemma otail_mono : forall d d' t, strict_otail d t -> d <= d' -> strict_otail d' t.
Proof. intros. eapply (proj2 (proj2 strict_mono_all)); eauto. Qed.

(* ---- numbers *)
Lemma canonical_sint : forall l v, canonical l v -> sint l.
Proof.
  intros l v (Hd & Hne & _ & Hz). destruct l as [|c r]; [contradiction|].
  destruct r as [|c2 r].
  - cbn in Hd. rewrite andb_true_r in Hd.
    destruct (N.eq_dec c 48) as [->|Hc]; [left; reflexivity|].
    right. exists c, []. repeat split; assumption.
  - right. exists c, (c2 :: r). cbn in Hz. unfold all_digits in Hd. cbn [forallb] in Hd.
    apply andb_true_iff in Hd. destruct Hd as [H1 H2]. repeat split; assumption.
Qed.

Lemma snumber_utoa : forall n, snumber (utoa n).
Proof.
  intro n. left. exists (utoa n), [], []. rewrite !app_nil_r. repeat split; [|left; reflexivity|left; reflexivity].
  rewrite <- (N2Z.id n). rewrite <- canon_dec_utoa by lia. eapply canonical_sint. apply canon_dec_canonical. lia.
Qed.

Lemma snumber_itoa : forall z, snumber (itoa z).
Proof.
  intro z. destruct z as [|p|p]; cbn [itoa].
  - apply snumber_utoa.
  - apply snumber_utoa.
  - right. exists (utoa (Npos p)). split; [reflexivity|].
    destruct (snumber_utoa (Npos p)) as [H|[m [Hm _]]]; [exact H|].
    exfalso. (* utoa never starts with '-' *)
    assert (Hs : sint (utoa (N.pos p))).
    { rewrite <- (N2Z.id (N.pos p)). rewrite <- canon_dec_utoa by lia. eapply canonical_sint. apply canon_dec_canonical. lia. }
    rewrite Hm in Hs. destruct Hs as [Hs|(c & d & Hs & Hc & _)]; [discriminate Hs|]. injection Hs as <- _. discriminate Hc.
Qed.

(* ---- strings: alg.Quote output is a strict string body *)
Lemma strict_body_app : forall a b, strict_body a -> strict_body b -> strict_body (a ++ b).
Proof.
  induction 1; intro Hb; cbn [app]; [exact Hb| | |].
  - apply stb_char; auto.
  - apply stb_esc; auto.
  - apply stb_u; auto.
Qed.

Lemma hexdig_hex : forall x, (x < 16)%N -> is_hex (hexdig x) = true.
Proof.
  intros x Hx. unfold hexdig, is_hex, is_digit. destruct (x <? 10)%N eqn:E.
  - apply N.ltb_lt in E. assert ((48 <=? 48 + x)%N = true) as -> by (apply N.leb_le; lia).
    assert ((48 + x <=? 57)%N = true) as -> by (apply N.leb_le; lia). reflexivity.
  - apply N.ltb_ge in E. assert ((97 <=? 87 + x)%N = true) as -> by (apply N.leb_le; lia).
    assert ((87 + x <=? 102)%N = true) as -> by (apply N.leb_le; lia). apply orb_true_r.
Qed.

Lemma single_esc_body : forall c e, single_esc c = Some e -> strict_body e.
Proof.
  intros c e H. unfold single_esc in H.
  destruct (c =? 9)%N; [injection H as <-; apply stb_esc; [reflexivity|constructor]|].
  destruct (c =? 10)%N; [injection H as <-; apply stb_esc; [reflexivity|constructor]|].
  destruct (c =? 13)%N; [injection H as <-; apply stb_esc; [reflexivity|constructor]|].
  destruct (c <? 32)%N eqn:E32.
  - injection H as <-. unfold u00. apply N.ltb_lt in E32.
    apply stb_u; try reflexivity; [apply hexdig_hex; apply N.div_lt_upper_bound; lia|apply hexdig_hex; apply N.mod_lt; lia|constructor].
  - destruct (c =? 34)%N; [injection H as <-; apply stb_esc; [reflexivity|constructor]|].
    destruct (c =? 92)%N; [injection H as <-; apply stb_esc; [reflexivity|constructor]|]. discriminate H.
Qed.

Lemma single_esc_none : forall c, single_esc c = None -> c <> 34%N /\ c <> 92%N /\ (32 <= c)%N.
Proof.
  intros c H. unfold single_esc in H.
  destruct (c =? 9)%N; [discriminate|]. destruct (c =? 10)%N; [discriminate|]. destruct (c =? 13)%N; [discriminate|].
  destruct (c <? 32)%N eqn:E32; [discriminate|]. apply N.ltb_ge in E32.
  destruct (c =? 34)%N eqn:E1; [discriminate|]. destruct (c =? 92)%N eqn:E2; [discriminate|].
  apply N.eqb_neq in E1. apply N.eqb_neq in E2. repeat split; assumption.
Qed.

Lemma quote_body : forall s, strict_body (esc_with single_esc s).
Proof.
  induction s as [|c s IH]; [constructor|].
  unfold esc_with. cbn [flat_map]. fold (esc_with single_esc s).
  destruct (single_esc c) as [e|] eqn:E.
  - apply strict_body_app; [eapply single_esc_body; exact E|exact IH].
  - destruct (single_esc_none c E) as (H1 & H2 & H3). cbn [app]. constructor; assumption.
Qed.

Lemma strict_quote : forall d s, strict d (quote s false).
Proof. intros d s. unfold quote. cbn [app]. apply ST_str. apply quote_body. Qed.


(* ---- the reference encoder on the fragment *)
Definition fwf (k : kind) (bits : N) (txt : option bytes) : Prop := forall t, txt = Some t -> snumber t.

Section WF.
  Variable e : env.
  Variable nn : bool.
  (* with NoNullSliceOrMap a nil slice is `[]`: one level deeper than the state stack it needs *)
  Definition nil_depth : nat := if nn then 1 else 0.
  Notation has_type := (has_type fwf).

  Lemma scalar_wf : forall k fuel v addr res, scalar_kind k = true -> has_type (TPrim k) v ->
    std_enc e Qraw nn fuel (TPrim k) v addr false = SOk res -> strict 0 res.
  Proof.
    intros k fuel v addr res Hk Hv H. destruct fuel as [|f]; [discriminate H|].
    inversion Hv as [b|k' z Hr|k' bits txt Hk' Hf|s| | | | | |]; subst.
    - destruct addr; cbn in H; injection H as <-; destruct b; constructor.
    - unfold int_range_ok in Hr. destruct k; cbn in Hr; try contradiction; destruct addr; cbn in H; injection H as <-;
        apply ST_num; first [apply snumber_itoa|apply snumber_utoa].
    - destruct Hk' as [-> | ->]; destruct addr; cbn in H; destruct txt as [x|]; try discriminate H; injection H as <-;
        apply ST_num; apply (Hf _ eq_refl).
    - destruct addr; cbn in H; injection H as <-; apply strict_quote.
  Qed.

  (* base64 text is made of plain characters *)
  Definition plain (c : N) : Prop := c <> 34%N /\ c <> 92%N /\ (32 <= c)%N.
  Lemma plain_body : forall l, Forall plain l -> strict_body l.
  Proof. induction 1 as [|c l (H1 & H2 & H3) Hl IH]; [constructor|apply stb_char; assumption]. Qed.
  Lemma b64ch_plain : forall n, plain (b64ch n).
  Proof.
    intro n. unfold b64ch, plain.
    destruct (n <? 26)%N eqn:E1; [apply N.ltb_lt in E1; lia|].
    destruct (n <? 52)%N eqn:E2; [apply N.ltb_lt in E2; apply N.ltb_ge in E1; lia|].
    destruct (n <? 62)%N eqn:E3; [apply N.ltb_lt in E3; apply N.ltb_ge in E2; lia|].
    destruct (n =? 62)%N; lia.
  Qed.
  Lemma base64_plain : forall n s, length s <= n -> Forall plain (base64 s).
  Proof.
    assert (H61 : plain 61%N) by (unfold plain; lia).
    induction n as [|n IH]; intros s Hs.
    - destruct s; [constructor|cbn in Hs; lia].
    - destruct s as [|a [|b [|c r]]]; cbn [base64]; repeat (constructor; try apply b64ch_plain; try exact H61).
      apply IH. cbn [length] in Hs. lia.
  Qed.

  (* `,string`: the scalar inside a string literal *)
  Lemma numchar_plain : forall l, Forall numchar l -> Forall plain l.
  Proof.
    induction 1 as [|c l Hc Hl IH]; constructor; [|exact IH]. unfold plain.
    destruct Hc as [Hc|Hc]; [unfold is_digit in Hc; apply andb_true_iff in Hc; destruct Hc as [A B]; apply N.leb_le in A; apply N.leb_le in B; lia|lia].
  Qed.

  Lemma double_esc_body : forall s r, strict_body r -> strict_body (esc_with double_esc s ++ r).
  Proof.
    induction s as [|c s IH]; intros r Hr; [exact Hr|].
    unfold esc_with. cbn [flat_map]. fold (esc_with double_esc s). rewrite <- app_assoc. specialize (IH r Hr).
    unfold double_esc.
    destruct (c =? 9)%N; [cbn [app]; apply stb_esc; [reflexivity|]; apply stb_char; try lia; exact IH|].
    destruct (c =? 10)%N; [cbn [app]; apply stb_esc; [reflexivity|]; apply stb_char; try lia; exact IH|].
    destruct (c =? 13)%N; [cbn [app]; apply stb_esc; [reflexivity|]; apply stb_char; try lia; exact IH|].
    destruct (c <? 32)%N eqn:E32.
    - apply N.ltb_lt in E32. unfold u00. cbn [app]. apply stb_esc; [reflexivity|].
      assert (H1 := hexdig_hex (c / 16) ltac:(apply N.div_lt_upper_bound; lia)).
      assert (H2 := hexdig_hex (c mod 16) ltac:(apply N.mod_lt; lia)).
      destruct (is_hex_plain _ H1) as [A1 A2]. destruct (is_hex_plain _ H2) as [B1 B2].
      assert (G : forall h, is_hex h = true -> (32 <= h)%N).
      { intros h Hh. unfold is_hex, is_digit in Hh. repeat (apply orb_true_iff in Hh; destruct Hh as [Hh|Hh]);
          apply andb_true_iff in Hh; destruct Hh as [A B]; apply N.leb_le in A; apply N.leb_le in B; lia. }
      repeat (apply stb_char; try lia; try assumption; try (apply G; assumption)).
    - apply N.ltb_ge in E32.
      destruct (N.eqb_spec c 34) as [->|N1]; [cbn [app]; apply stb_esc; [reflexivity|]; apply stb_esc; [reflexivity|exact IH]|].
      destruct (N.eqb_spec c 92) as [->|N2]; [cbn [app]; apply stb_esc; [reflexivity|]; apply stb_esc; [reflexivity|exact IH]|].
      cbn [app]. apply stb_char; assumption.
  Qed.

  Lemma strict_quote2 : forall d s, strict d (quote s true).
  Proof.
    intros d s. unfold quote.
    replace ([34; 92; 34]%N ++ esc_with double_esc s ++ [92; 34; 34]%N) with (34%N :: ([92; 34]%N ++ esc_with double_esc s ++ [92; 34]%N) ++ [34%N])
      by (cbn [app]; rewrite <- app_assoc; reflexivity).
    apply ST_str. cbn [app]. apply stb_esc; [reflexivity|]. apply double_esc_body. apply stb_esc; [reflexivity|constructor].
  Qed.

  Lemma scalar_wf_q : forall k fuel v addr res, scalar_kind k = true -> has_type (TPrim k) v ->
    std_enc e Qraw nn fuel (TPrim k) v addr true = SOk res -> strict 0 res.
  Proof.
    intros k fuel v addr res Hk Hv H. destruct fuel as [|f]; [discriminate H|].
    inversion Hv as [b|k' z Hr|k' bits txt Hk' Hf|s| | | | | |]; subst.
    - destruct addr; cbn in H; injection H as <-; destruct b; apply (ST_str 0); apply plain_body; repeat constructor; unfold plain; lia.
    - unfold int_range_ok in Hr. destruct k; cbn in Hr; try contradiction; destruct addr; cbn in H; injection H as <-;
        apply (ST_str 0); apply plain_body; apply numchar_plain; apply snumber_numchar; first [apply snumber_itoa|apply snumber_utoa].
    - destruct Hk' as [-> | ->]; destruct addr; cbn in H; destruct txt as [x|]; try discriminate H; injection H as <-;
        apply (ST_str 0); apply plain_body; apply numchar_plain; apply snumber_numchar; apply (Hf _ eq_refl).
    - destruct addr; cbn in H; injection H as <-; apply strict_quote2.
  Qed.

  Lemma tail_wf : forall f el addr l,
    (forall x, In x l -> forall a, std_enc e Qraw nn f el x addr false = SOk a -> strict (need x + nil_depth) a) ->
    forall tb, tail_items e nn f el addr l = SOk tb -> strict_atail (need_list l + nil_depth) (tb ++ [93%N]).
  Proof.
    intros f el addr. induction l as [|y r IHr]; intros IH tb H.
    - cbn in H. injection H as <-. apply (SAT_end _ []). reflexivity.
    - destruct (tail_items_cons _ _ _ _ _ _ _ _ H) as (a & tb' & Ha & Ht & ->).
      pose proof (IH y (or_introl eq_refl) _ Ha) as H1.
      pose proof (IHr (fun x Hx => IH x (or_intror Hx)) _ Ht) as H2.
      replace (([44%N] ++ a ++ tb') ++ [93%N]) with ([] ++ 44%N :: [] ++ a ++ (tb' ++ [93%N])) by (cbn [app]; rewrite <- app_assoc; reflexivity).
      change (need_list (y :: r)) with (Nat.max (need y) (need_list r)).
      apply SAT_more; try reflexivity.
      + eapply strict_mono; [exact H1|pose proof (Nat.le_max_l (need y) (need_list r)); lia].
      + eapply atail_mono; [exact H2|pose proof (Nat.le_max_r (need y) (need_list r)); lia].
  Qed.

  Lemma list_wf : forall f el addr l,
    (forall x, In x l -> forall a, std_enc e Qraw nn f el x addr false = SOk a -> strict (need x + nil_depth) a) ->
    forall items, enc_list e nn f el addr l = SOk items -> strict (S (need_list l + nil_depth)) ([91%N] ++ items ++ [93%N]).
  Proof.
    intros f el addr l IH items H. destruct l as [|x r].
    - cbn in H. injection H as <-. apply (ST_arr0 _ []). reflexivity.
    - destruct (enc_list_inv _ _ _ _ _ _ _ _ H) as (a & tb & Ha & Ht & ->).
      pose proof (IH x (or_introl eq_refl) _ Ha) as H1.
      pose proof (tail_wf _ _ _ r (fun y Hy => IH y (or_intror Hy)) _ Ht) as H2.
      replace ([91%N] ++ (a ++ tb) ++ [93%N]) with (91%N :: [] ++ a ++ (tb ++ [93%N])) by (cbn [app]; rewrite <- app_assoc; reflexivity).
      change (need_list (x :: r)) with (Nat.max (need x) (need_list r)).
      apply ST_arr; try reflexivity.
      + eapply strict_mono; [exact H1|pose proof (Nat.le_max_l (need x) (need_list r)); lia].
      + eapply atail_mono; [exact H2|pose proof (Nat.le_max_r (need x) (need_list r)); lia].
  Qed.

  Section Struct.
    Variables (sz : N) (ph : list (N * ty)) (fsall : list field).
    Notation ST := (TStruct sz ph fsall).
    Hypothesis Hlay : layout_ok e 0 ph sz.
    Variable vs : list val.
    Hypothesis Hlen : length vs = length ph.
    Hypothesis Htyp : forall k o t x, nth_error ph k = Some (o, t) -> nth_error vs k = Some x -> has_type t x.
    Hypothesis IHph : forall k o t x, nth_error ph k = Some (o, t) -> nth_error vs k = Some x ->
      forall f addr a, std_enc e Qraw nn f t x addr false = SOk a -> strict (need x + nil_depth) a.

    (* a field is either left out or contributes "name":value *)
    Lemma field_step : forall f addr fd r first items, field_ok ph fd ->
      enc_fields e nn f ST (VStruct vs) addr (fd :: r) first = SOk items ->
      enc_fields e nn f ST (VStruct vs) addr r first = SOk items \/
      exists a rest, strict (need_list vs + nil_depth) a /\ enc_fields e nn f ST (VStruct vs) addr r false = SOk rest /\
        items = (if first then [] else [44%N]) ++ quote (f_name fd) false ++ [58%N] ++ a ++ rest.
    Proof.
      intros f addr fd r first items (o & Hp & Ho & Hin) H.
      destruct (opts_ok_bits fd Ho) as (Hoz & Hoe & Hsq).
      destruct (In_nth_error _ _ Hin) as [k Hk].
      assert (Hkl : k < length vs) by (rewrite Hlen; apply nth_error_Some; congruence).
      destruct (nth_error vs k) as [x|] eqn:Hx; [|apply nth_error_None in Hx; lia].
      rewrite (enc_fields_cons e nn sz ph fsall Hlay f vs addr fd r first o k x Hp Hoz Hk Hx) in H.
      destruct (F_omitempty fd && is_empty_value e (f_type fd) x); [left; exact H|right].
      unfold sbind in H.
      destruct (std_enc e Qraw nn f (f_type fd) x addr (F_stringize fd)) as [a|] eqn:Ea; [|discriminate H].
      destruct (enc_fields e nn f ST (VStruct vs) addr r false) as [rest|] eqn:Er; [|discriminate H].
      injection H as <-. exists a, rest. repeat split; try reflexivity.
      destruct (F_stringize fd) eqn:Es.
      - destruct (Hsq eq_refl) as [Hqt _]. destruct (f_type fd) as [kq| | | | | | |] eqn:Eft; try discriminate Hqt.
        eapply strict_mono; [eapply scalar_wf_q; [exact Hqt|eapply Htyp; eassumption|exact Ea]|apply Nat.le_0_l].
      - eapply strict_mono; [eapply IHph; eassumption|]. pose proof (need_list_in vs x (nth_error_In _ _ Hx)). lia.
    Qed.

    Lemma fields_wf : forall f addr fs, Forall (field_ok ph) fs -> forall first items,
      enc_fields e nn f ST (VStruct vs) addr fs first = SOk items ->
      if first then strict (S (need_list vs + nil_depth)) ([123%N] ++ items ++ [125%N]) else strict_otail (need_list vs + nil_depth) (items ++ [125%N]).
    Proof.
      intros f addr fs Hfs. induction Hfs as [|fd r Hfd Hr IH]; intros first items H.
      - cbn in H. injection H as <-. destruct first; [apply (ST_obj0 _ [])|apply (SOT_end _ [])]; reflexivity.
      - destruct (field_step _ _ _ _ _ _ Hfd H) as [H'|(a & rest' & H1 & Hr' & ->)]; [apply IH; exact H'|].
        pose proof (IH false _ Hr') as H2. cbn iota in H2. unfold quote. destruct first.
        + replace ([123%N] ++ ([] ++ ([34%N] ++ esc_with single_esc (f_name fd) ++ [34%N]) ++ [58%N] ++ a ++ rest') ++ [125%N])
            with (123%N :: [] ++ 34%N :: esc_with single_esc (f_name fd) ++ 34%N :: [] ++ 58%N :: [] ++ a ++ (rest' ++ [125%N]))
            by (cbn [app]; repeat (rewrite <- app_assoc; cbn [app]); reflexivity).
          apply ST_obj; try reflexivity; [apply quote_body|exact H1|exact H2].
        + replace (([44%N] ++ ([34%N] ++ esc_with single_esc (f_name fd) ++ [34%N]) ++ [58%N] ++ a ++ rest') ++ [125%N])
            with ([] ++ 44%N :: [] ++ 34%N :: esc_with single_esc (f_name fd) ++ 34%N :: [] ++ 58%N :: [] ++ a ++ (rest' ++ [125%N]))
            by (cbn [app]; repeat (rewrite <- app_assoc; cbn [app]); reflexivity).
          apply SOT_more; try reflexivity; [apply quote_body|exact H1|exact H2].
    Qed.

    Lemma struct_wf : forall f addr fs, Forall (field_ok ph) fs -> forall items,
      enc_fields e nn f ST (VStruct vs) addr fs true = SOk items -> strict (S (need_list vs + nil_depth)) ([123%N] ++ items ++ [125%N]).
    Proof. intros f addr fs Hfs items H. exact (fields_wf f addr fs Hfs true items H). Qed.
  End Struct.

  (* every value of the fragment: the bytes of the reference encoder are one strict RFC 8259 value, nested no deeper
     than the state stack the machine needs for the value *)
  Theorem wellformed_frag : forall t, frag e t -> forall fuel v addr res, has_type t v ->
    std_enc e Qraw nn fuel t v addr false = SOk res -> strict (need v + nil_depth) res.
  Proof.
    induction t using ty_ind'; intros Hf fuel v addr res Hv Hs; cbn [frag] in Hf; try contradiction.
    - eapply strict_mono; [eapply scalar_wf; eassumption|apply Nat.le_0_l].
    - (* array *)
      destruct fuel as [|f]; [discriminate Hs|].
      inversion Hv as [ | | | | | | | |n0 el0 l Hlen Hall| ]; subst.
      rewrite (std_enc_array e nn f _ t l addr false Hf) in Hs. unfold sbind in Hs.
      destruct (enc_list e nn f t addr l) as [items|] eqn:El; [|discriminate Hs]. injection Hs as <-.
      change (need (VArr l) + nil_depth) with (S (need_list l + nil_depth)).
      eapply list_wf; [|exact El]. intros x Hx a Ha. eapply IHt; [exact Hf|apply Hall; exact Hx|exact Ha].
    - (* slice *)
      destruct fuel as [|f]; [discriminate Hs|].
      inversion Hv as [ | | | | | |el0|el0 l Hall| | ]; subst.
      + destruct addr; cbn in Hs; injection Hs as <-; unfold nil_depth; destruct nn; first [apply (ST_arr0 0 []); reflexivity|constructor].
      + destruct (is_simple_byte e t) eqn:Esb.
        * assert (Eel : t = TPrim KUint8).
          { unfold is_simple_byte in Esb. apply andb_true_iff in Esb. destruct Esb as [Esb _]. apply andb_true_iff in Esb. destruct Esb as [Esb _].
            clear - Hf Esb. destruct t as [k| | | | | | |]; cbn in Hf; try contradiction; try discriminate Esb. destruct k; try discriminate Esb. reflexivity. }
          subst t.
          destruct addr; cbn in Hs;
            match type of Hs with context [match ?x with Some _ => _ | None => _ end] => destruct x as [b|] end;
            try discriminate Hs; injection Hs as <-; apply ST_str; apply plain_body; eapply base64_plain; apply le_n.
        * rewrite (std_enc_slice e nn f t l addr false Hf Esb) in Hs. unfold sbind in Hs.
          destruct (enc_list e nn f t true l) as [items|] eqn:El; [|discriminate Hs]. injection Hs as <-.
          change (need (VSlice (Some l)) + nil_depth) with (S (need_list l + nil_depth)).
          eapply list_wf; [|exact El]. intros x Hx a Ha. eapply IHt; [exact Hf|apply Hall; exact Hx|exact Ha].
    - (* pointer *)
      destruct fuel as [|f]; [discriminate Hs|].
      assert (Hi : forall m, implements e (TPtr t) m = false) by (intro m; apply (frag_implements e e t m Hf)).
      inversion Hv as [ | | | |el0|el0 x Hx| | | | ]; subst.
      + cbn [std_enc] in Hs. rewrite !Hi in Hs. cbn in Hs. injection Hs as <-. constructor.
      + cbn [std_enc] in Hs. rewrite !Hi in Hs. cbn in Hs.
        eapply strict_mono; [eapply IHt; eassumption|]. cbn [need]. lia.
    - (* struct *)
      destruct fuel as [|f]; [discriminate Hs|].
      destruct Hf as (Hall & Hlay & Hfs).
      inversion Hv as [ | | | | | | | | |sz0 ph0 fs0 vs Hlen Hty]; subst.
      rewrite std_enc_struct in Hs. unfold sbind in Hs.
      destruct (enc_fields e nn f (TStruct s ph fs) (VStruct vs) addr fs true) as [items|] eqn:Ef; [|discriminate Hs]. injection Hs as <-.
      change (need (VStruct vs) + nil_depth) with (S (need_list vs + nil_depth)).
      eapply (struct_wf s ph fs Hlay vs Hlen Hty); [|exact Hfs|exact Ef].
      intros k o t x Hk Hx f' addr' a Ha.
      rewrite Forall_forall in H. specialize (H (o, t) (nth_error_In _ _ Hk)). cbn in H.
      eapply H; [eapply frag_all_in; [exact Hall|eapply nth_error_In; exact Hk]|eapply Hty; eassumption|exact Ha].
  Qed.
End WF.

(* sonic's own validator (alg.Valid, property C02's model) accepts those bytes *)
Theorem wellformed_frag_valid : forall e nn t fuel v addr res, frag e t -> has_type fwf t v -> need v + nil_depth nn < 4096 ->
  std_enc e Qraw nn fuel t v addr false = SOk res -> Valid res = Ok true.
Proof.
  intros e nn t fuel v addr res Hf Hv Hn Hs. apply valid_complete.
  exists [], res, []. rewrite app_nil_r. repeat split; try reflexivity.
  eapply sval_mono; [apply strict_sub_sval; eapply wellformed_frag; eassumption|]. unfold MAX_RECURSE. cbn. lia.
Qed.
