(* C03 - compile_labels_wf: every branch operand of a compiled program points inside the program (or just past its end,
   which is how Execute leaves the loop).  Proved for the code emitted at any pc: all targets lie in [pc, pc + length code]. *)
From Coq Require Import List NArith ZArith Bool Lia.
From SV.Enc Require Import Prims Ty IR Compile.
Import ListNotations.
Local Open Scope nat_scope.

Definition in_range (lo hi : nat) (c : list instr) : Prop :=
  Forall (fun i => forall l, target i = Some l -> lo <= l <= hi) c.

Lemma in_range_app : forall lo hi a b, in_range lo hi a -> in_range lo hi b -> in_range lo hi (a ++ b).
Proof. intros. apply Forall_app; split; assumption. Qed.

Lemma in_range_widen : forall lo hi lo' hi' c, in_range lo hi c -> lo' <= lo -> hi <= hi' -> in_range lo' hi' c.
Proof.
  intros lo hi lo' hi' c H H1 H2. eapply Forall_impl; [|exact H].
  intros i Hi l Hl. specialize (Hi l Hl). lia.
Qed.

Lemma in_range_nil : forall lo hi, in_range lo hi []. Proof. intros. constructor. Qed.

Lemma in_range_cons : forall lo hi i c, (forall l, target i = Some l -> lo <= l <= hi) -> in_range lo hi c -> in_range lo hi (i :: c).
Proof. intros. constructor; assumption. Qed.

(* the code of a construct placed at pc *)
Definition ok_at (pc : nat) (r : cres) : Prop :=
  match r with COk c => in_range pc (pc + length c) c | CErr _ => True end.

Ltac notarget := let l := fresh in let H := fresh in intros l H; cbn in H; try discriminate H.
Ltac tgt := let l := fresh in let H := fresh in intros l H; cbn in H; inversion H; subst; clear H;
  repeat rewrite app_length; cbn [length app]; lia.

Ltac range_simpl :=
  repeat rewrite app_length in *; cbn [length] in *.

(* solve in_range goals of explicit instruction lists *)
Ltac ir :=
  repeat first
    [ apply in_range_nil
    | apply in_range_app
    | apply in_range_cons; [first [notarget; fail | tgt] |] ].

Section Wf.
  Variable e : env.
  Variable co : copts.

  Lemma ok_compileString : forall pc vt, in_range pc (pc + length (compileString e vt)) (compileString e vt).
  Proof. intros. unfold compileString. destruct (is_number e vt); ir. Qed.

  Lemma ok_tryMarshaler : forall pc vt pv c, tryCompileMarshaler e pc vt pv = Some c -> in_range pc (pc + length c) c.
  Proof.
    intros pc vt pv c H. unfold tryCompileMarshaler, compileMarshaler in H.
    destruct (is_ptr e vt);
    repeat match type of H with
           | (if ?b then _ else _) = _ => destruct b
           end; inversion H; subst; cbn [length]; ir.
  Qed.

  Lemma ok_mapKey : forall pc vk, ok_at pc (compileMapBodyKey e pc vk).
  Proof.
    intros pc vk. unfold compileMapBodyKey.
    destruct (is_kind e vk KString); [apply ok_compileString|].
    destruct (negb (implements e vk MText)).
    - unfold compileMapBodyTextKey. destruct (rkind_of e vk) as [k| | | | | |]; try exact I.
      destruct k; try exact I; cbn [ok_at Key length]; try (ir; fail). apply ok_compileString.
    - cbn [ok_at]. unfold compileMapBodyUtextKey. destruct (is_ptr e vk); cbn [length]; ir.
  Qed.

  Lemma ok_fieldEmpty : forall vt L c, compileStructFieldEmpty e vt L = COk c -> length c = 1 /\ in_range L L c.
  Proof.
    intros vt L c H. unfold compileStructFieldEmpty in H.
    destruct (rkind_of e vt) as [k| | | | | |]; try discriminate H; try destruct k; try discriminate H;
      inversion H; subst; (split; [reflexivity|]); ir.
  Qed.

  Lemma ok_omitNil : forall vt L, length (compileStructFieldOmitNilPtr e vt L) <= 1 /\ in_range L L (compileStructFieldOmitNilPtr e vt L).
  Proof.
    intros vt L. unfold compileStructFieldOmitNilPtr. destruct (rkind_of e vt); cbn [length]; (split; [lia|]); ir.
  Qed.

  Lemma ok_interface : forall pc vt, in_range pc (pc + length (compileInterface e pc vt)) (compileInterface e pc vt).
  Proof.
    intros pc vt. unfold compileInterface. destruct (unfold e vt) as [| | | | |k| |]; try destruct k; cbn [length]; ir.
  Qed.

  Lemma pathCode_len : forall p L L', length (pathCode p L) = length (pathCode p L').
  Proof. induction p as [|[o d] r IH]; intros; cbn [pathCode length]; [reflexivity|]. destruct d; cbn [app length]; rewrite (IH L L'); reflexivity. Qed.

  Lemma pathCode_range : forall p L, in_range L L (pathCode p L).
  Proof. induction p as [|[o d] r IH]; intros; cbn [pathCode]; [apply in_range_nil|]. destruct d; cbn [app]; ir; apply IH. Qed.

  Section WithRec.
    Variable rec : list ty -> bool -> nat -> nat -> ty -> bool -> cres.
    Hypothesis Hrec : forall tab cpv sp pc vt pv, ok_at pc (rec tab cpv sp pc vt pv).
    Variable tab : list ty.
    Variable cpv : bool.

    Lemma ok_one : forall sp pc vt pv, ok_at pc (one rec tab cpv sp pc vt pv).
    Proof. intros. unfold one. apply Hrec. Qed.

    Ltac use_one c E :=
      match goal with
      | |- context [one rec tab cpv ?sp ?pc ?vt ?pv] =>
          let H := fresh "Ho" in
          pose proof (ok_one sp pc vt pv) as H; destruct (one rec tab cpv sp pc vt pv) as [c|] eqn:E; [cbn [ok_at] in H | exact I]
      end.

    Lemma ok_Tag : forall sp pc r, ok_at pc r -> ok_at pc (Tag sp r).
    Proof. intros. unfold Tag. destruct (N.of_nat sp <? MaxStack)%N; [assumption|exact I]. Qed.

    Lemma ok_compileNil : forall pc nil_op body, target nil_op = None -> (forall pc', ok_at pc' (body pc')) ->
      ok_at pc (compileNil pc nil_op body).
    Proof.
      intros pc nil_op body Hn Hb. unfold compileNil, cbind. specialize (Hb (pc + 1)).
      destruct (body (pc + 1)) as [b|]; [|exact I]. cbn [ok_at] in *. range_simpl.
      apply in_range_cons; [tgt|]. apply in_range_app.
      - eapply in_range_widen; [exact Hb| |]; lia.
      - apply in_range_cons; [tgt|]. apply in_range_cons; [|apply in_range_nil]. intros l H. rewrite Hn in H. discriminate.
    Qed.

    Lemma ok_ptrBody : forall sp pc vt, ok_at pc (compilePtrBody rec tab cpv sp pc vt).
    Proof.
      intros. unfold compilePtrBody. apply ok_Tag. unfold cbind. use_one c E. cbn [ok_at]. range_simpl.
      ir. eapply in_range_widen; [exact Ho| |]; lia.
    Qed.

    Lemma ok_mapBody : forall sp pc vt, ok_at pc (compileMapBody e rec tab cpv sp pc vt).
    Proof.
      intros. unfold compileMapBody. apply ok_Tag. unfold cbind.
      pose proof (ok_mapKey (pc + 7) (key_of e vt)) as Hk1.
      destruct (compileMapBodyKey e (pc + 7) (key_of e vt)) as [k1|]; [cbn [ok_at] in Hk1|exact I].
      use_one v1 E1.
      pose proof (ok_mapKey (pc + 7 + length k1 + 2 + length v1 + 3) (key_of e vt)) as Hk2.
      destruct (compileMapBodyKey e (pc + 7 + length k1 + 2 + length v1 + 3) (key_of e vt)) as [k2|]; [cbn [ok_at] in Hk2|exact I].
      use_one v2 E2.
      cbn [ok_at]. range_simpl.
      repeat (apply in_range_cons; [first [notarget; fail | tgt]|]).
      apply in_range_app; [eapply in_range_widen; [exact Hk1| |]; lia|].
      repeat (apply in_range_cons; [first [notarget; fail | tgt]|]).
      apply in_range_app; [eapply in_range_widen; [exact Ho| |]; lia|].
      repeat (apply in_range_cons; [first [notarget; fail | tgt]|]).
      apply in_range_app; [eapply in_range_widen; [exact Hk2| |]; lia|].
      repeat (apply in_range_cons; [first [notarget; fail | tgt]|]).
      apply in_range_app; [eapply in_range_widen; [exact Ho0| |]; lia|].
      ir.
    Qed.

    Lemma ok_sliceBody : forall sp pc vt, ok_at pc (compileSliceBody e rec tab cpv sp pc vt).
    Proof.
      intros. unfold compileSliceBody. destruct (is_simple_byte e vt); [cbn; ir|].
      unfold compileSliceArray. apply ok_Tag. unfold cbind.
      use_one c1 E1. use_one c2 E2. cbn [ok_at]. range_simpl.
      repeat (apply in_range_cons; [first [notarget; fail | tgt]|]).
      apply in_range_app; [eapply in_range_widen; [exact Ho| |]; lia|].
      repeat (apply in_range_cons; [first [notarget; fail | tgt]|]).
      apply in_range_app; [eapply in_range_widen; [exact Ho0| |]; lia|].
      ir.
    Qed.

    Lemma ok_arrayRest : forall n i sp pc vt, ok_at pc (arrayRest e rec tab cpv n i sp pc vt).
    Proof.
      induction n as [|n IH]; intros; cbn [arrayRest]; [cbn; apply in_range_nil|].
      unfold cbind. use_one c E.
      specialize (IH (i + 1)%N sp (pc + 2 + length c + 1) vt).
      destruct (arrayRest e rec tab cpv n (i + 1)%N sp (pc + 2 + length c + 1) vt) as [r|]; [cbn [ok_at] in IH|exact I].
      cbn [ok_at]. range_simpl.
      repeat (apply in_range_cons; [first [notarget; fail | tgt]|]).
      apply in_range_app; [eapply in_range_widen; [exact Ho| |]; lia|].
      apply in_range_cons; [notarget|]. eapply in_range_widen; [exact IH| |]; lia.
    Qed.

    Lemma ok_array : forall sp pc vt nb, ok_at pc (compileArray e rec tab cpv sp pc vt nb).
    Proof.
      intros. unfold compileArray. apply ok_Tag. destruct nb as [|nb]; [cbn; ir|].
      unfold cbind. use_one c E.
      pose proof (ok_arrayRest nb 1%N sp (pc + 2 + length c + 1) vt) as Hr.
      destruct (arrayRest e rec tab cpv nb 1%N sp (pc + 2 + length c + 1) vt) as [r|]; [cbn [ok_at] in Hr|exact I].
      cbn [ok_at]. range_simpl.
      repeat (apply in_range_cons; [first [notarget; fail | tgt]|]).
      apply in_range_app; [eapply in_range_widen; [exact Ho| |]; lia|].
      apply in_range_cons; [notarget|].
      apply in_range_app; [eapply in_range_widen; [exact Hr| |]; lia|]. ir.
    Qed.

    Lemma ok_fieldQuoted : forall sp pc vt, ok_at pc (compileStructFieldQuoted rec tab cpv sp pc vt).
    Proof.
      intros. unfold compileStructFieldQuoted, cbind. use_one c E. cbn [ok_at]. range_simpl.
      apply in_range_cons; [notarget|]. apply in_range_app; [eapply in_range_widen; [exact Ho| |]; lia|]. ir.
    Qed.

    Lemma ok_fieldStr : forall sp pc vt, ok_at pc (compileStructFieldStr e rec tab cpv sp pc vt).
    Proof.
      intros. unfold compileStructFieldStr.
      destruct (tryCompileMarshaler e pc vt cpv) as [c|] eqn:Em; [cbn [ok_at]; eapply ok_tryMarshaler; exact Em|].
      destruct (negb (stringable e (if is_ptr e vt then elem_of e vt else vt))); [apply ok_one|].
      unfold cbind.
      destruct (is_ptr e vt) eqn:Ep.
      - destruct (negb (is_number e (elem_of e vt)) && is_kind e (elem_of e vt) KString).
        + cbn [ok_at length]. ir.
        + pose proof (ok_fieldQuoted sp (pc + 2) (elem_of e vt)) as Hq.
          destruct (compileStructFieldQuoted rec tab cpv sp (pc + 2) (elem_of e vt)) as [b|]; [cbn [ok_at] in Hq|exact I].
          cbn [ok_at]. range_simpl.
          repeat (apply in_range_cons; [first [notarget; fail | tgt]|]).
          apply in_range_app; [eapply in_range_widen; [exact Hq| |]; lia|]. ir.
      - destruct (negb (is_number e vt) && is_kind e vt KString).
        + cbn [ok_at length]. ir.
        + pose proof (ok_fieldQuoted sp (pc + 0) vt) as Hq.
          destruct (compileStructFieldQuoted rec tab cpv sp (pc + 0) vt) as [b|]; [cbn [ok_at] in Hq|exact I].
          cbn [ok_at]. eapply in_range_widen; [exact Hq| |]; lia.
    Qed.

    Definition omitA (fv : field) (L : nat) : cres :=
      match rkind_of e (f_type fv) with
      | RStruct | RArray => COk []
      | _ => if F_omitempty fv
             then (if EncOnlyOmitNull co then COk (compileStructFieldOmitNilPtr e (f_type fv) L) else compileStructFieldEmpty e (f_type fv) L)
             else COk []
      end.

    Lemma omitA_spec : forall fv L a, omitA fv L = COk a ->
      in_range L L a /\ forall L' a', omitA fv L' = COk a' -> length a' = length a.
    Proof.
      intros fv L a H. unfold omitA in *.
      assert (Hgen : (if F_omitempty fv
                      then (if EncOnlyOmitNull co then COk (compileStructFieldOmitNilPtr e (f_type fv) L) else compileStructFieldEmpty e (f_type fv) L)
                      else COk []) = COk a ->
                     in_range L L a /\
                     forall L' a', (if F_omitempty fv
                      then (if EncOnlyOmitNull co then COk (compileStructFieldOmitNilPtr e (f_type fv) L') else compileStructFieldEmpty e (f_type fv) L')
                      else COk []) = COk a' -> length a' = length a).
      { intro Hc. destruct (F_omitempty fv); [|inversion Hc; subst; split; [apply in_range_nil|]; intros L' a' Ha'; inversion Ha'; reflexivity].
        destruct (EncOnlyOmitNull co).
        - inversion Hc; subst. split; [apply (proj2 (ok_omitNil _ _))|].
          intros L' a' Ha'. inversion Ha'; subst. unfold compileStructFieldOmitNilPtr. destruct (rkind_of e (f_type fv)); reflexivity.
        - destruct (ok_fieldEmpty _ _ _ Hc) as [Hl Hr]. split; [exact Hr|].
          intros L' a' Ha'. destruct (ok_fieldEmpty _ _ _ Ha') as [Hl' _]. rewrite Hl, Hl'. reflexivity. }
      destruct (rkind_of e (f_type fv)); first [ exact (Hgen H) | inversion H; subst; split; [apply in_range_nil|]; intros L' a' Ha'; inversion Ha'; reflexivity ].
    Qed.

    Lemma omitCode_spec : forall fv L c, omitCode e co fv L = COk c ->
      in_range L L c /\ forall L' c', omitCode e co fv L' = COk c' -> length c' = length c.
    Proof.
      intros fv L c H.
      assert (Hu : forall L0, omitCode e co fv L0 = cbind (omitA fv L0) (fun a => COk (a ++ (if F_omitzero fv then [OP_is_zero L0 fv] else [])))) by reflexivity.
      rewrite Hu in H. unfold cbind in H.
      destruct (omitA fv L) as [a|] eqn:Ea; [|discriminate H]. inversion H; subst; clear H.
      destruct (omitA_spec _ _ _ Ea) as [Hr Hl]. split.
      - apply in_range_app; [exact Hr|]. destruct (F_omitzero fv); ir.
      - intros L' c' H'. rewrite Hu in H'. unfold cbind in H'.
        destruct (omitA fv L') as [a'|] eqn:Ea'; [|discriminate H']. inversion H'; subst.
        range_simpl. rewrite (Hl _ _ Ea'). destruct (F_omitzero fv); reflexivity.
    Qed.

    Lemma ok_fieldCode : forall sp pc fv, ok_at pc (fieldCode e co rec tab cpv sp pc fv).
    Proof.
      intros. unfold fieldCode.
      match goal with |- ok_at _ (if ?b then _ else _) => destruct b end; [cbn; apply in_range_nil|].
      unfold cbind.
      destruct (omitCode e co fv 0) as [om0|] eqn:E0; [|exact I].
      set (i := pc + length (pathCode (f_path fv) 0) + length om0).
      assert (Hv : forall r, r = (if F_stringize fv then compileStructFieldStr e rec tab cpv (sp + 1) (i + 3) (f_type fv)
                                  else one rec tab cpv (sp + 1) (i + 3) (f_type fv) cpv) -> ok_at (i + 3) r).
      { intros r ->. destruct (F_stringize fv); [apply ok_fieldStr|apply ok_one]. }
      destruct (if F_stringize fv then compileStructFieldStr e rec tab cpv (sp + 1) (i + 3) (f_type fv)
                else one rec tab cpv (sp + 1) (i + 3) (f_type fv) cpv) as [v|] eqn:Ev; [|exact I].
      specialize (Hv _ eq_refl). cbn [ok_at] in Hv.
      destruct (omitCode e co fv (i + 3 + length v)) as [om|] eqn:Eo; [|exact I].
      destruct (omitCode_spec _ _ _ Eo) as [Hor Hol].
      pose proof (Hol 0 om0 E0) as Hlen.
      cbn [ok_at]. range_simpl.
      rewrite (pathCode_len (f_path fv) (i + 3 + length v) 0).
      assert (Hi : i = pc + length (pathCode (f_path fv) 0) + length om) by (unfold i; lia).
      apply in_range_app; [eapply in_range_widen; [apply pathCode_range| |]; lia|].
      apply in_range_app; [eapply in_range_widen; [exact Hor| |]; lia|].
      repeat (apply in_range_cons; [first [notarget; fail | tgt]|]).
      apply in_range_app; [eapply in_range_widen; [exact Hv| |]; lia|]. ir.
    Qed.

    Lemma ok_fieldsCode : forall fs sp pc, ok_at pc (fieldsCode e co rec tab cpv sp pc fs).
    Proof.
      induction fs as [|fv r IH]; intros; cbn [fieldsCode]; [cbn; apply in_range_nil|].
      unfold cbind. pose proof (ok_fieldCode sp pc fv) as Hf.
      destruct (fieldCode e co rec tab cpv sp pc fv) as [c|]; [cbn [ok_at] in Hf|exact I].
      specialize (IH sp (pc + length c)).
      destruct (fieldsCode e co rec tab cpv sp (pc + length c) r) as [cr|]; [cbn [ok_at] in IH|exact I].
      cbn [ok_at]. range_simpl.
      apply in_range_app; eapply in_range_widen; try eassumption; lia.
    Qed.

    Lemma ok_struct : forall sp pc vt, ok_at pc (compileStruct e co rec tab cpv sp pc vt).
    Proof.
      intros. unfold compileStruct.
      match goal with |- ok_at _ (if ?b then _ else _) => destruct b end; [cbn; ir|].
      unfold compileStructBody. apply ok_Tag. unfold cbind.
      pose proof (ok_fieldsCode (fields_of e vt) sp (pc + 3)) as Hf.
      destruct (fieldsCode e co rec tab cpv sp (pc + 3) (fields_of e vt)) as [c|]; [cbn [ok_at] in Hf|exact I].
      cbn [ok_at]. range_simpl.
      repeat (apply in_range_cons; [first [notarget; fail | tgt]|]).
      apply in_range_app; [eapply in_range_widen; [exact Hf| |]; lia|]. ir.
    Qed.

    Lemma ok_ops : forall sp pc vt, ok_at pc (compileOps e co rec tab cpv sp pc vt).
    Proof.
      intros. unfold compileOps.
      destruct (rkind_of e vt) as [k| | | | | |].
      - destruct k; cbn [ok_at length]; try (ir; fail). apply ok_compileString.
      - apply ok_array.
      - cbn [ok_at]. apply ok_interface.
      - apply ok_compileNil; [reflexivity|]. intro. apply ok_mapBody.
      - apply ok_compileNil; [reflexivity|]. intro. apply ok_ptrBody.
      - apply ok_compileNil; [reflexivity|]. intro. apply ok_sliceBody.
      - apply ok_struct.
    Qed.
  End WithRec.

  Lemma ok_compileOne : forall fuel tab cpv sp pc vt pv, ok_at pc (compileOne e co fuel tab cpv sp pc vt pv).
  Proof.
    induction fuel as [|f IH]; intros; cbn [compileOne]; [exact I|].
    destruct (mem_ty vt tab); [cbn; ir|].
    destruct (tryCompileMarshaler e pc vt pv) as [c|] eqn:Em; [cbn [ok_at]; eapply ok_tryMarshaler; exact Em|].
    apply ok_ops. intros. apply IH.
  Qed.

  (* every branch target of a compiled program is within the program (<= its length) *)
  Theorem compile_labels_wf : forall vt pv prog, compile e co vt pv = COk prog ->
    Forall (fun i => forall l, target i = Some l -> l <= length prog) prog.
  Proof.
    intros vt pv prog H. unfold compile in H.
    pose proof (ok_compileOne compile_fuel [] false 0 0 vt pv) as Hk. rewrite H in Hk. cbn [ok_at] in Hk.
    eapply Forall_impl; [|exact Hk]. intros i Hi l Hl. specialize (Hi l Hl). lia.
  Qed.
End Wf.
