(* C03 - the reference: encoding/json.Marshal as documented (Go 1.23 sources: encode.go), over the same
   (type, value) universe.  Independent of the IR: a direct recursion over the value.
   The two string-literal functions are parameters: instantiated with encoding/json's own escaping (std_quote)
   for the comparison with the real encoding/json, and with sonic's spelling for theorem C03_marshal_agree
   (the property allows the spelling of escapes to differ, nothing else). *)
From Coq Require Import List NArith ZArith Bool Lia.
From SV.Num Require Import NumGrammar.
From SV.Enc Require Import Prims Ty Val JsonLite MapSort.
Import ListNotations.
Local Open Scope nat_scope.

Inductive serr := S_unsupported | S_nan | S_number | S_marshaler | S_fuel | S_illtyped.
Inductive sres := SOk (b : bytes) | SErr (x : serr).

Definition sbind (r : sres) (k : bytes -> sres) : sres := match r with SOk b => k b | SErr x => SErr x end.
Notation "'dos' x <- r ; k" := (sbind r (fun x => k)) (at level 200, x name, r at level 100, k at level 200).

(* ---- encoding/json appendString(dst, s, escapeHTML) *)
Definition std_esc_byte (html : bool) (c : N) : option bytes :=
  if (c =? 34)%N then Some [92; 34]%N
  else if (c =? 92)%N then Some [92; 92]%N
  else if (c =? 8)%N then Some [92; 98]%N
  else if (c =? 12)%N then Some [92; 102]%N
  else if (c =? 10)%N then Some [92; 110]%N
  else if (c =? 13)%N then Some [92; 114]%N
  else if (c =? 9)%N then Some [92; 116]%N
  else if (c <? 32)%N then Some (u00 c)
  else if html && ((c =? 60) || (c =? 62) || (c =? 38))%N then Some (u00 c)
  else None.

Fixpoint std_quote_aux (fuel : nat) (html : bool) (s : bytes) : bytes :=
  match fuel with
  | O => []
  | S f =>
      match s with
      | [] => []
      | c :: r =>
          if (c <? 128)%N then
            (match std_esc_byte html c with Some x => x | None => [c] end) ++ std_quote_aux f html r
          else match utf8_len s with
               | O => repl_fffd ++ std_quote_aux f html r
               | n =>
                   match s with
                   | 226%N :: 128%N :: 168%N :: r' => [92; 117; 50; 48; 50; 56]%N ++ std_quote_aux f html r'
                   | 226%N :: 128%N :: 169%N :: r' => [92; 117; 50; 48; 50; 57]%N ++ std_quote_aux f html r'
                   | _ => firstn n s ++ std_quote_aux f html (skipn n s)
                   end
               end
      end
  end.
Definition std_quote (html : bool) (s : bytes) : bytes := [34%N] ++ std_quote_aux (length s) html s ++ [34%N].

Record quoting := { q1 : bytes -> bytes;      (* a Go string as a JSON string literal *)
                    q2 : bytes -> bytes }.    (* the `,string` option on a string: the literal of the literal *)

Definition quoting_std : quoting := {| q1 := std_quote true; q2 := fun s => std_quote false (std_quote true s) |}.

(* sonic under ConfigStd: alg.Quote, then the HTML-escape and UTF-8 correction passes of encodeFinish *)
Definition finish_std (b : bytes) : bytes :=
  let b1 := html_escape b in if utf8_valid b1 then b1 else utf8_correct b1.
Definition quoting_sonic : quoting := {| q1 := fun s => finish_std (quote s false); q2 := fun s => finish_std (quote s true) |}.

(* ---- insertion sort of the resolved keys (slices.SortFunc with strings.Compare) *)
Fixpoint ins_key {A : Type} (x : bytes * A) (l : list (bytes * A)) : list (bytes * A) :=
  match l with
  | [] => [x]
  | y :: r => if str_lt (fst x) (fst y) then x :: l else y :: ins_key x r
  end.
Definition sort_keys {A : Type} (l : list (bytes * A)) : list (bytes * A) := fold_right ins_key [] l.

Section Std.
  Variable e : env.
  Variable Q : quoting.
  Variable nn : bool.        (* NoNullSliceOrMap: nil slices / maps as [] / {} (encoding/json itself: false) *)

  Definition wrapq (quoted : bool) (b : bytes) : bytes := if quoted then [34%N] ++ b ++ [34%N] else b.

  (* the oracle of the receiver: the value itself, or the pointee for pointer types *)
  Definition recv_oracle (v : val) : option (oracle * oracle) :=
    match v with
    | VMeth j t _ => Some (j, t)
    | VPtr (Some (VMeth j t _)) => Some (j, t)
    | VIface (Some (_, VMeth j t _)) => Some (j, t)
    | VIface (Some (_, VPtr (Some (VMeth j t _)))) => Some (j, t)
    | _ => None
    end.

  Definition is_nil_recv (v : val) : bool :=
    match v with VPtr None | VIface None => true | _ => false end.

  (* marshalerEncoder / addrMarshalerEncoder: compact(b, escapeHTML) *)
  Definition call_json (v : val) : sres :=
    if is_nil_recv v then SOk s_null else
    match recv_oracle v with
    | Some (OOk b, _) => match compact b with Some c => SOk (html_escape c) | None => SErr S_marshaler end
    | Some (OErr, _) => SErr S_marshaler
    | _ => SErr S_illtyped
    end.

  Definition call_text (v : val) : sres :=
    if is_nil_recv v then SOk s_null else
    match recv_oracle v with
    | Some (_, OOk b) => SOk (q1 Q b)
    | Some (_, OErr) => SErr S_marshaler
    | _ => SErr S_illtyped
    end.

  (* resolveKeyName *)
  Definition std_key (kt : ty) (k : val) : sres :=
    if is_kind e kt KString then match strip k with VStr s => SOk s | _ => SErr S_illtyped end
    else if implements e kt MText then
      match k with
      | VPtr None => SOk []
      | _ => match recv_oracle k with
             | Some (_, OOk b) => SOk b
             | Some (_, OErr) => SErr S_marshaler
             | _ => SErr S_illtyped
             end
      end
    else match rkind_of e kt, strip k with
         | RPrim (KInt | KInt8 | KInt16 | KInt32 | KInt64), VInt z => SOk (itoa z)
         | RPrim (KUint | KUint8 | KUint16 | KUint32 | KUint64 | KUintptr), VInt z => SOk (utoa (Z.to_N z))
         | _, _ => SErr S_illtyped
         end.

  (* newMapEncoder: the key kinds accepted *)
  Definition std_key_ok (kt : ty) : bool :=
    match rkind_of e kt with
    | RPrim (KString | KInt | KInt8 | KInt16 | KInt32 | KInt64 | KUint | KUint8 | KUint16 | KUint32 | KUint64 | KUintptr) => true
    | _ => implements e kt MText
    end.

  (* isEmptyValue *)
  Definition is_empty_value (t : ty) (v : val) : bool :=
    match strip v with
    | VArr l => match l with [] => true | _ => false end
    | VMap o => match o with None | Some [] => true | _ => false end
    | VSlice o => match o with None | Some [] => true | _ => false end
    | VStr s => match s with [] => true | _ => false end
    | VBool _ | VInt _ | VFloat _ _ | VIface _ | VPtr _ => is_zero_val e t (strip v)
    | _ => false
    end.

  (* walk the offsets path of a resolved field; None = an embedded pointer on the way is nil (field skipped) *)
  Fixpoint nav (p : ptr) (path : list (N * bool)) (addr : bool) : option (option (ptr * bool)) :=
    match path with
    | [] => Some (Some (p, addr))
    | (o, d) :: r =>
        let p1 := padd p o in
        if d then
          match leaf e p1 with
          | Some (lt, VPtr None) => Some None
          | Some (lt, VPtr (Some x)) =>
              match unfold e lt with TPtr el => nav (PAt el x 0) r true | _ => None end
          | _ => None
          end
        else nav p1 r addr
    end.

  Fixpoint join (sep : bytes) (l : list bytes) : bytes :=
    match l with
    | [] => []
    | [x] => x
    | x :: r => x ++ sep ++ join sep r
    end.

  Fixpoint std_enc (fuel : nat) (t : ty) (v : val) (addr quoted : bool) {struct fuel} : sres :=
    match fuel with
    | O => SErr S_fuel
    | S f =>
        if negb (match rkind_of e t with RPtr => true | _ => false end) && addr && ptr_implements e t MJson then call_json v
        else if implements e t MJson then call_json v
        else if negb (match rkind_of e t with RPtr => true | _ => false end) && addr && ptr_implements e t MText then call_text v
        else if implements e t MText then call_text v
        else
        match rkind_of e t, strip v with
        | RPrim KBool, VBool b => SOk (wrapq quoted (if b then s_true else s_false))
        | RPrim (KInt | KInt8 | KInt16 | KInt32 | KInt64), VInt z => SOk (wrapq quoted (itoa z))
        | RPrim (KUint | KUint8 | KUint16 | KUint32 | KUint64 | KUintptr), VInt z => SOk (wrapq quoted (utoa (Z.to_N z)))
        | RPrim (KFloat32 | KFloat64), VFloat _ txt =>
            match txt with Some x => SOk (wrapq quoted x) | None => SErr S_nan end
        | RPrim KString, VStr s =>
            if is_number e t then
              match s with
              | [] => SOk (wrapq quoted [48%N])
              | _ => if is_valid_number s then SOk (wrapq quoted s) else SErr S_number
              end
            else SOk (if quoted then q2 Q s else q1 Q s)
        | RInterface, VIface None => SOk s_null
        | RInterface, VIface (Some (dt, dv)) => std_enc f dt dv false false
        | RPtr, VPtr None => SOk s_null
        | RPtr, VPtr (Some x) => std_enc f (match unfold e t with TPtr el => el | _ => t end) x true quoted
        | RArray, VArr l =>
            let el := match unfold e t with TArray _ x => x | _ => t end in
            dos items <- (fix go (l : list val) : sres :=
                            match l with
                            | [] => SOk []
                            | x :: r => dos a <- std_enc f el x addr false; dos b <- go r;
                                        SOk (match r with [] => a | _ => a ++ [44%N] ++ b end)
                            end) l;
            SOk ([91%N] ++ items ++ [93%N])
        | RSlice, VSlice o =>
            let el := match unfold e t with TSlice x => x | _ => t end in
            match o with
            | None => SOk (if nn then [91%N; 93%N] else s_null)
            | Some l =>
                if is_kind e el KUint8 && negb (ptr_implements e el MJson || ptr_implements e el MText) then
                  match (fix bs (l : list val) : option bytes :=
                           match l with
                           | [] => Some []
                           | x :: r => match strip x, bs r with VInt z, Some b => Some (Z.to_N z :: b) | _, _ => None end
                           end) l with
                  | Some b => SOk ([34%N] ++ base64 b ++ [34%N])
                  | None => SErr S_illtyped
                  end
                else
                  dos items <- (fix go (l : list val) : sres :=
                                  match l with
                                  | [] => SOk []
                                  | x :: r => dos a <- std_enc f el x true false; dos b <- go r;
                                              SOk (match r with [] => a | _ => a ++ [44%N] ++ b end)
                                  end) l;
                  SOk ([91%N] ++ items ++ [93%N])
            end
        | RMap, VMap o =>
            match unfold e t with
            | TMap kt et =>
                if negb (std_key_ok kt) then SErr S_unsupported else
                match o with
                | None => SOk (if nn then [123%N; 125%N] else s_null)
                | Some l =>
                    match (fix ks (l : list (val * val)) : sres + list (bytes * val) :=
                             match l with
                             | [] => inr []
                             | (k, x) :: r => match std_key kt k, ks r with
                                              | SOk b, inr t' => inr ((b, x) :: t')
                                              | SErr z, _ => inl (SErr z)
                                              | _, inl z => inl z
                                              end
                             end) l with
                    | inl z => z
                    | inr pairs =>
                        dos items <- (fix go (l : list (bytes * val)) : sres :=
                                        match l with
                                        | [] => SOk []
                                        | (k, x) :: r => dos a <- std_enc f et x false false; dos b <- go r;
                                                         SOk (q1 Q k ++ [58%N] ++ a ++ match r with [] => [] | _ => [44%N] ++ b end)
                                        end) (sort_keys pairs);
                        SOk ([123%N] ++ items ++ [125%N])
                    end
                end
            | _ => SErr S_illtyped
            end
        | RStruct, VStruct _ =>
            match unfold e t with
            | TStruct _ _ fields =>
                dos items <- (fix go (fs : list field) (first : bool) : sres :=
                                match fs with
                                | [] => SOk []
                                | fd :: r =>
                                    match nav (PAt t v 0) (f_path fd) addr with
                                    | None => SErr S_illtyped
                                    | Some None => go r first
                                    | Some (Some (p, a)) =>
                                        match typed e (f_type fd) p with
                                        | None => SErr S_illtyped
                                        | Some fv =>
                                            if (F_omitempty fd && is_empty_value (f_type fd) fv)
                                               || (F_omitzero fd && is_zero_val e (f_type fd) fv)
                                            then go r first
                                            else
                                              dos x <- std_enc f (f_type fd) fv a (F_stringize fd);
                                              dos rest <- go r false;
                                              SOk ((if first then [] else [44%N]) ++ q1 Q (f_name fd) ++ [58%N] ++ x ++ rest)
                                        end
                                    end
                                end) fields true;
                SOk ([123%N] ++ items ++ [125%N])
            | _ => SErr S_illtyped
            end
        | RPrim (KComplex64 | KComplex128 | KChan | KFunc | KUnsafePointer), _ => SErr S_unsupported
        | _, _ => SErr S_illtyped
        end
    end.

  (* json.Marshal(v): v = None is the nil interface *)
  Definition std_marshal (fuel : nat) (v : option (ty * val)) : sres :=
    match v with
    | None => SOk s_null
    | Some (t, x) => std_enc fuel t x false false
    end.
End Std.
