(* C03/C12/C04 - internal/encoder/compiler.go, function by function.
   The Go compiler appends to a Program and patches branch operands afterwards (Pin/Rel: "target := PC now").
   Here every compileX takes the program counter at which its code starts and returns the code with the final
   operands; a Pin(x) executed when the Go PC is n is the operand n of instruction x.  The result is compared
   instruction by instruction with the real compiler's output on every run (IR tie). *)
From Coq Require Import List NArith ZArith Bool Lia.
From SV.Enc Require Import Prims Ty IR.
Import ListNotations.
Local Open Scope nat_scope.

Record copts := { MaxInlineDepth : nat; EncOnlyOmitNull : bool }.
Definition default_copts := {| MaxInlineDepth := 3; EncOnlyOmitNull := false |}.   (* option.DefaultCompileOptions *)

(* vars/const.go *)
Definition MaxStack : N := 4096.
Definition MAX_ILBUF : N := 100000.
Definition MAX_FIELDS : nat := 50.

Inductive cerr :=
| CE_type (t : ty)        (* panic(vars.Error_type(vt)): json.UnsupportedTypeError, returned as the error of Marshal *)
| CE_nest                 (* Tag: panic("type nesting too deep") - not an error value, the panic escapes *)
| CE_fuel.                (* model artefact: never for well-formed environments (compile_fuel_enough) *)

Inductive cres := COk (c : list instr) | CErr (x : cerr).

Definition cbind (r : cres) (k : list instr -> cres) : cres :=
  match r with COk c => k c | CErr x => CErr x end.
Notation "'do' x <- r ; k" := (cbind r (fun x => k)) (at level 200, x name, r at level 100, k at level 200).

Definition Tag (sp : nat) (k : cres) : cres := if (N.of_nat sp <? MaxStack)%N then k else CErr CE_nest.

Section Compile.
  Variable e : env.
  Variable co : copts.

  Definition elem_of (t : ty) : ty :=
    match unfold e t with TPtr x | TSlice x | TArray _ x | TMap _ x => x | _ => t end.
  Definition key_of (t : ty) : ty := match unfold e t with TMap k _ => k | _ => t end.
  Definition len_of (t : ty) : nat := match unfold e t with TArray n _ => n | _ => O end.
  Definition fields_of (t : ty) : list field := match unfold e t with TStruct _ _ fs => fs | _ => [] end.
  Definition is_ptr (t : ty) : bool := match rkind_of e t with RPtr => true | _ => false end.

  (* compileMarshaler (addMarshalerOp has one instruction in both executors) *)
  Definition compileMarshaler (pc : nat) (op : ty -> instr) (vt : ty) : list instr :=
    if is_ptr vt then [OP_is_nil (pc + 3); op vt; OP_goto (pc + 4); OP_null] else [op vt].

  Definition tryCompileMarshaler (pc : nat) (vt : ty) (pv : bool) : option (list instr) :=
    let pt := TPtr vt in
    if pv && implements e pt MJson then Some [OP_marshal_p pt]
    else if implements e vt MJson then Some (compileMarshaler pc OP_marshal vt)
    else if pv && implements e pt MText then Some [OP_marshal_text_p pt]
    else if implements e vt MText then Some (compileMarshaler pc OP_marshal_text vt)
    else None.

  Definition compileString (vt : ty) : list instr := if is_number e vt then [OP_number] else [OP_str].

  Definition Key (op : instr) : list instr := [OP_byte 34; op; OP_byte 34].

  Definition compileMapBodyTextKey (vk : ty) : cres :=
    match rkind_of e vk with
    | RPrim KBool => COk (Key OP_bool)
    | RPrim KInt => COk (Key OP_int)
    | RPrim KInt8 => COk (Key OP_i8)
    | RPrim KInt16 => COk (Key OP_i16)
    | RPrim KInt32 => COk (Key OP_i32)
    | RPrim KInt64 => COk (Key OP_i64)
    | RPrim KUint => COk (Key OP_uint)
    | RPrim KUint8 => COk (Key OP_u8)
    | RPrim KUint16 => COk (Key OP_u16)
    | RPrim KUint32 => COk (Key OP_u32)
    | RPrim KUint64 => COk (Key OP_u64)
    | RPrim KUintptr => COk (Key OP_uintptr)
    | RPrim KFloat32 => COk (Key OP_f32)
    | RPrim KFloat64 => COk (Key OP_f64)
    | RPrim KString => COk (compileString vk)
    | _ => CErr (CE_type vk)
    end.

  Definition compileMapBodyUtextKey (pc : nat) (vk : ty) : list instr :=
    if is_ptr vk
    then [OP_is_nil (pc + 3); OP_marshal_text vk; OP_goto (pc + 4); OP_text [34%N; 34%N]]
    else [OP_marshal_text vk].

  Definition compileMapBodyKey (pc : nat) (vk : ty) : cres :=
    if is_kind e vk KString then COk (compileString vk)
    else if negb (implements e vk MText) then compileMapBodyTextKey vk
    else COk (compileMapBodyUtextKey pc vk).

  Definition compileStructFieldEmpty (vt : ty) (L : nat) : cres :=
    match rkind_of e vt with
    | RPrim KBool => COk [OP_is_zero_1 L]
    | RPrim KInt => COk [OP_is_zero_ints L]
    | RPrim KInt8 => COk [OP_is_zero_1 L]
    | RPrim KInt16 => COk [OP_is_zero_2 L]
    | RPrim KInt32 => COk [OP_is_zero_4 L]
    | RPrim KInt64 => COk [OP_is_zero_8 L]
    | RPrim KUint => COk [OP_is_zero_ints L]
    | RPrim KUint8 => COk [OP_is_zero_1 L]
    | RPrim KUint16 => COk [OP_is_zero_2 L]
    | RPrim KUint32 => COk [OP_is_zero_4 L]
    | RPrim KUint64 => COk [OP_is_zero_8 L]
    | RPrim KUintptr => COk [OP_is_nil L]
    | RPrim KFloat32 => COk [OP_is_zero_4 L]
    | RPrim KFloat64 => COk [OP_is_zero_8 L]
    | RPrim KString => COk [OP_is_nil_p1 L]
    | RInterface => COk [OP_is_nil L]
    | RMap => COk [OP_is_zero_map L]
    | RPtr => COk [OP_is_nil L]
    | RSlice => COk [OP_is_nil_p1 L]
    | _ => CErr (CE_type vt)
    end.

  Definition compileStructFieldOmitNilPtr (vt : ty) (L : nat) : list instr :=
    match rkind_of e vt with
    | RInterface | RMap | RPtr | RSlice => [OP_is_nil L]
    | _ => []
    end.

  Definition compileInterface (pc : nat) (vt : ty) : list instr :=
    match unfold e vt with
    | TIface IfEface => [OP_eface]
    | _ => [OP_is_nil (pc + 3); OP_iface; OP_goto (pc + 4); OP_null]      (* type word: nil interface only (fix 67bb07d) *)
    end.

  Definition stringable (t : ty) : bool :=
    match rkind_of e t with
    | RPrim (KBool | KInt | KInt8 | KInt16 | KInt32 | KInt64 | KUint | KUint8 | KUint16 | KUint32 | KUint64 | KUintptr
             | KFloat32 | KFloat64 | KString) => true
    | _ => false
    end.

  (* ---- the recursive part: rec = compileOne at the next fuel level *)
  Section WithRec.
    Variable rec : list ty -> bool -> nat -> nat -> ty -> bool -> cres.   (* tab, self.pv, sp, pc, vt, pv *)
    Variable tab : list ty.
    Variable cpv : bool.              (* self.pv *)

    Definition one (sp pc : nat) (vt : ty) (pv : bool) : cres := rec tab cpv sp pc vt pv.

    Definition compileNil (pc : nat) (nil_op : instr) (body : nat -> cres) : cres :=
      do b <- body (pc + 1);
      COk ([OP_is_nil (pc + length b + 2)] ++ b ++ [OP_goto (pc + length b + 3); nil_op]).

    Definition compilePtrBody (sp pc : nat) (vt : ty) : cres :=
      Tag sp (do c <- one (sp + 1) (pc + 2) vt true; COk ([OP_save; OP_deref] ++ c ++ [OP_drop])).

    Definition compileMapBody (sp pc : nat) (vt : ty) : cres :=
      Tag (sp + 1)
       (do k1 <- compileMapBodyKey (pc + 7) (key_of vt);
        let U := pc + 7 + length k1 in
        do v1 <- one (sp + 2) (U + 2) (elem_of vt) false;
        let j := U + 2 + length v1 in
        do k2 <- compileMapBodyKey (j + 3) (key_of vt);
        let V := j + 3 + length k2 in
        do v2 <- one (sp + 2) (V + 2) (elem_of vt) false;
        let stop := V + 2 + length v2 + 1 in
        COk ([OP_byte 123; OP_is_zero_map (stop + 2); OP_save; OP_map_iter vt; OP_save;
              OP_map_check_key stop; OP_map_write_key U] ++ k1 ++ [OP_byte 58; OP_map_value_next] ++ v1 ++
             [OP_map_check_key stop; OP_byte 44; OP_map_write_key V] ++ k2 ++ [OP_byte 58; OP_map_value_next] ++ v2 ++
             [OP_goto j; OP_map_stop; OP_drop_2; OP_byte 125])).

    Definition compileSliceArray (sp pc : nat) (vt : ty) : cres :=
      Tag sp
       (do c1 <- one (sp + 1) (pc + 5) vt true;
        let j := pc + 5 + length c1 in
        do c2 <- one (sp + 1) (j + 2) vt true;
        let fin := j + 2 + length c2 + 1 in
        COk ([OP_byte 91; OP_is_nil (fin + 1); OP_save; OP_slice_len; OP_slice_next fin vt] ++ c1 ++
             [OP_slice_next fin vt; OP_byte 44] ++ c2 ++ [OP_goto j; OP_drop; OP_byte 93])).

    Definition compileSliceBody (sp pc : nat) (vt : ty) : cres :=
      if is_simple_byte e vt then COk [OP_bin] else compileSliceArray sp pc vt.

    (* remaining items of compileArray: i = index of the next item, n = items left *)
    Fixpoint arrayRest (n : nat) (i : N) (sp pc : nat) (vt : ty) : cres :=
      match n with
      | O => COk []
      | S n' =>
          do c <- one (sp + 1) (pc + 2) vt cpv;
          do r <- arrayRest n' (i + 1)%N sp (pc + 2 + length c + 1) vt;
          COk ([OP_byte 44; OP_index (i * sizeof e vt)%N] ++ c ++ [OP_load] ++ r)
      end.

    Definition compileArray (sp pc : nat) (vt : ty) (nb : nat) : cres :=
      Tag sp
       (match nb with
        | O => COk [OP_byte 91; OP_save; OP_drop; OP_byte 93]
        | S nb' =>
            do c <- one (sp + 1) (pc + 2) vt cpv;
            do r <- arrayRest nb' 1 sp (pc + 2 + length c + 1) vt;
            COk ([OP_byte 91; OP_save] ++ c ++ [OP_load] ++ r ++ [OP_drop; OP_byte 93])
        end).

    Definition compileStructFieldQuoted (sp pc : nat) (vt : ty) : cres :=
      do c <- one sp (pc + 1) vt cpv; COk ([OP_byte 34] ++ c ++ [OP_byte 34]).

    Definition compileStructFieldStr (sp pc : nat) (vt : ty) : cres :=
      match tryCompileMarshaler pc vt cpv with
      | Some c => COk c
      | None =>
          let ft := if is_ptr vt then elem_of vt else vt in
          if negb (stringable ft) then one sp pc vt cpv
          else
            let pre := if is_ptr vt then 2 else 0 in
            do body <- (if negb (is_number e ft) && is_kind e ft KString then COk [OP_quote]
                        else compileStructFieldQuoted sp (pc + pre) ft);
            if is_ptr vt
            then let g := pc + 2 + length body in
                 COk ([OP_is_nil (g + 1); OP_deref] ++ body ++ [OP_goto (g + 2); OP_null])
            else COk body
      end.

    (* index to the field: the skipping jumps all go to L *)
    Fixpoint pathCode (p : list (N * bool)) (L : nat) : list instr :=
      match p with
      | [] => []
      | (o, d) :: r => OP_index o :: (if d then [OP_is_nil L; OP_deref] else []) ++ pathCode r L
      end.

    Definition omitCode (fv : field) (L : nat) : cres :=
      let ft := f_type fv in
      do a <- (match rkind_of e ft with
               | RStruct | RArray => COk []
               | _ => if F_omitempty fv
                      then (if EncOnlyOmitNull co then COk (compileStructFieldOmitNilPtr ft L) else compileStructFieldEmpty ft L)
                      else COk []
               end);
      COk (a ++ (if F_omitzero fv then [OP_is_zero L fv] else [])).

    Definition fieldCode (sp pc : nat) (fv : field) : cres :=
      let ft := f_type fv in
      if (match rkind_of e ft with RArray => Nat.eqb (len_of ft) 0 && F_omitempty fv | _ => false end) then COk []
      else
        do om0 <- omitCode fv 0;
        let i := pc + length (pathCode (f_path fv) 0) + length om0 in      (* cond_testc *)
        do v <- (if F_stringize fv then compileStructFieldStr (sp + 1) (i + 3) ft else one (sp + 1) (i + 3) ft cpv);
        let L := i + 3 + length v in
        do om <- omitCode fv L;
        COk (pathCode (f_path fv) L ++ om ++
             [OP_cond_testc (i + 2); OP_byte 44; OP_text (quote (f_name fv) false ++ [58%N])] ++ v ++ [OP_load]).

    Fixpoint fieldsCode (sp pc : nat) (fs : list field) : cres :=
      match fs with
      | [] => COk []
      | fv :: r =>
          do c <- fieldCode sp pc fv;
          do cr <- fieldsCode sp (pc + length c) r;
          COk (c ++ cr)
      end.

    Definition compileStructBody (sp pc : nat) (vt : ty) : cres :=
      Tag sp
       (do c <- fieldsCode sp (pc + 3) (fields_of vt);
        COk ([OP_byte 123; OP_save; OP_cond_set] ++ c ++ [OP_drop; OP_byte 125])).

    Definition compileStruct (sp pc : nat) (vt : ty) : cres :=
      if (MaxInlineDepth co <=? sp)%nat || (MAX_ILBUF <=? N.of_nat pc)%N
         || ((0 <? sp)%nat && (MAX_FIELDS <=? num_field e vt)%nat)
      then COk [OP_recurse vt cpv]
      else compileStructBody sp pc vt.

    Definition compileOps (sp pc : nat) (vt : ty) : cres :=
      match rkind_of e vt with
      | RPrim KBool => COk [OP_bool]
      | RPrim KInt => COk [OP_int]
      | RPrim KInt8 => COk [OP_i8]
      | RPrim KInt16 => COk [OP_i16]
      | RPrim KInt32 => COk [OP_i32]
      | RPrim KInt64 => COk [OP_i64]
      | RPrim KUint => COk [OP_uint]
      | RPrim KUint8 => COk [OP_u8]
      | RPrim KUint16 => COk [OP_u16]
      | RPrim KUint32 => COk [OP_u32]
      | RPrim KUint64 => COk [OP_u64]
      | RPrim KUintptr => COk [OP_uintptr]
      | RPrim KFloat32 => COk [OP_f32]
      | RPrim KFloat64 => COk [OP_f64]
      | RPrim KString => COk (compileString vt)
      | RArray => compileArray sp pc (elem_of vt) (len_of vt)
      | RInterface => COk (compileInterface pc vt)
      | RMap => compileNil pc OP_empty_obj (fun pc' => compileMapBody sp pc' vt)
      | RPtr => compileNil pc OP_null (fun pc' => compilePtrBody sp pc' (elem_of vt))
      | RSlice => compileNil pc OP_empty_arr (fun pc' => compileSliceBody sp pc' (elem_of vt))
      | RStruct => compileStruct sp pc vt
      | RPrim _ => COk [OP_unsupported vt]
      end.
  End WithRec.

  (* compileOne / compileRec *)
  Fixpoint compileOne (fuel : nat) (tab : list ty) (cpv : bool) (sp pc : nat) (vt : ty) (pv : bool) : cres :=
    match fuel with
    | O => CErr CE_fuel
    | S f =>
        if mem_ty vt tab then COk [OP_recurse vt pv]
        else match tryCompileMarshaler pc vt pv with
             | Some c => COk c
             | None => compileOps (compileOne f) (vt :: tab) pv sp pc vt
             end
    end.

  Definition compile_fuel : nat := 400.

  (* Compiler.Compile(vt, pv) with a fresh Compiler *)
  Definition compile (vt : ty) (pv : bool) : cres := compileOne compile_fuel [] false 0 0 vt pv.
End Compile.
