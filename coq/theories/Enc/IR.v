(* C03/C12/C04 - the encoder IR: internal/encoder/ir/op.go (same op set, operands as in ir.Instr). *)
From Coq Require Import List NArith ZArith Bool.
From SV.Enc Require Import Prims Ty.
Import ListNotations.

Inductive instr :=
| OP_null | OP_empty_arr | OP_empty_obj | OP_bool
| OP_i8 | OP_i16 | OP_i32 | OP_i64 | OP_u8 | OP_u16 | OP_u32 | OP_u64 | OP_f32 | OP_f64
| OP_str | OP_bin | OP_quote | OP_number | OP_eface | OP_iface
| OP_byte (b : N) | OP_text (s : bytes)
| OP_deref | OP_index (n : N) | OP_load | OP_save | OP_drop | OP_drop_2
| OP_recurse (t : ty) (pv : bool)
| OP_is_nil (l : nat) | OP_is_nil_p1 (l : nat)
| OP_is_zero_1 (l : nat) | OP_is_zero_2 (l : nat) | OP_is_zero_4 (l : nat) | OP_is_zero_8 (l : nat)
| OP_is_zero_map (l : nat)
| OP_goto (l : nat)
| OP_map_iter (t : ty) | OP_map_stop | OP_map_check_key (l : nat) | OP_map_write_key (l : nat) | OP_map_value_next
| OP_slice_len | OP_slice_next (l : nat) (t : ty)
| OP_marshal (t : ty) | OP_marshal_p (t : ty) | OP_marshal_text (t : ty) | OP_marshal_text_p (t : ty)
| OP_cond_set | OP_cond_testc (l : nat)
| OP_unsupported (t : ty)
| OP_is_zero (l : nat) (f : field).

Definition program := list instr.

(* branch target of an instruction, if it has one (ir.Instr.isBranch plus is_zero_map / is_zero, which branch too) *)
Definition target (i : instr) : option nat :=
  match i with
  | OP_is_nil l | OP_is_nil_p1 l | OP_is_zero_1 l | OP_is_zero_2 l | OP_is_zero_4 l | OP_is_zero_8 l
  | OP_is_zero_map l | OP_goto l | OP_map_check_key l | OP_map_write_key l | OP_slice_next l _
  | OP_cond_testc l | OP_is_zero l _ => Some l
  | _ => None
  end.

(* OP_int / OP_uint / OP_uintptr / OP_is_zero_ints on amd64 *)
Definition OP_int := OP_i64.
Definition OP_uint := OP_u64.
Definition OP_uintptr := OP_u64.
Definition OP_is_zero_ints := OP_is_zero_8.
