(* C04 - Marshal of a typed value of the proved fragment, under any option word that leaves nil slices as null:
   the machine (either executor) stops with one strict RFC 8259 value, which sonic's own validator accepts. *)
From Coq Require Import List NArith ZArith Bool Lia.
From SV.Enc Require Import Prims Ty Val IR Compile VM Exec StdEnc TyLemmas Sim Frag EncProofs.
From SV.Enc Require Import WellFormed Finish Total.
From SV.Json Require Import Chars Grammar Fsm Wrappers.
Import ListNotations.
Local Open Scope nat_scope.

Lemma has_type_mono : forall (F G : kind -> N -> option bytes -> Prop), (forall k b t, F k b t -> G k b t) ->
  forall t v, has_type F t v -> has_type G t v.
Proof.
  intros F G HFG t v H. induction H; try (constructor; auto; fail).
Qed.

Theorem encode_finish_strict : forall flags d v, strict d v -> strict d (encode_finish flags v).
Proof.
  intros flags d v H. unfold encode_finish.
  assert (H1 : strict d (if has_opts flags BitEscapeHTML then html_escape v else v)).
  { destruct (has_opts flags BitEscapeHTML); [apply html_escape_strict|]; exact H. }
  destruct (has_opts flags BitValidateString && negb (utf8_valid _)); [apply utf8_correct_strict|]; exact H1.
Qed.

Definition fok_wf (P : prims) (k : kind) (bits : N) (txt : option bytes) : Prop := fok P k bits txt /\ fwf k bits txt.

Section Marshal.
  Variable P : prims.
  Variable e : env.
  Variable co : copts.
  Hypothesis Hi : forall z, (- 2 ^ 63 <= z < 2 ^ 63)%Z -> p_i64toa P z = itoa z.
  Hypothesis Hu : forall z, (0 <= z < 2 ^ 64)%Z -> p_u64toa P z = utoa (Z.to_N z).
  Hypothesis Hq : forall s d, p_quote P s d = quote s d.
  Hypothesis Hbr : b_recurse P <> b_empty_arr P.
  Hypothesis Hnull : EncOnlyOmitNull co = false.
  Hypothesis Hinline : 0 < MaxInlineDepth co.

  Theorem marshal_wellformed : forall flg t v prog,
    frag e t -> compilable e co t -> has_type (fok_wf P) t v ->
    compile e co t (has_opts flg BitPointerValue) = COk prog ->
    (N.of_nat (need v) <= p_stack P)%N ->
    exists out, strict (need v + nil_depth (has_opts flg (b_empty_arr P))) out /\
      (encode P e co flg (Some (t, v)) = Done out \/ encode P e co flg (Some (t, v)) = OutOfFuel).
  Proof.
    intros flg t v prog Ht Hcp Hv Hc Hstk.
    set (nn := has_opts flg (b_empty_arr P)).
    assert (Hv1 : has_type (fok P) t v) by (eapply has_type_mono; [|exact Hv]; intros k b x [A _]; exact A).
    assert (Hv2 : has_type fwf t v) by (eapply has_type_mono; [|exact Hv]; intros k b x [_ A]; exact A).
    destruct (std_total e nn (fok P) ltac:(intros k b txt (x & -> & _); eexists; reflexivity) t Ht v (S (need v)) false Hv1 (le_n _)) as [res Hstd].
    pose proof (wellformed_frag e nn t Ht _ _ _ _ Hv2 Hstd) as Hwf.
    exists (encode_finish flg res). split; [apply encode_finish_strict; exact Hwf|].
    destruct (exec_frag P e co nn Hi Hu Hq Hbr Hnull Hinline flg t v (S (need v)) res prog eq_refl Ht Hcp Hv1 Hc Hstd Hstk) as (s0 & k & Hcall & Hrun).
    unfold encode, exec_top. rewrite Hcall.
    assert (Hk : k < 2 ^ (40 + k)) by (pose proof (pow2_gt (40 + k)); lia).
    pose proof (Hrun (40 + k) Hk) as H1.
    destruct (VM.run P e co 40 s0) as [s'| b | x | c | ] eqn:E; cbn [finish_run].
    - right. reflexivity.
    - pose proof (run_mono P e co 40 s0 _ E ltac:(discriminate) (40 + k) ltac:(lia)) as H2.
      rewrite H1 in H2. injection H2 as <-. left. reflexivity.
    - pose proof (run_mono P e co 40 s0 _ E ltac:(discriminate) (40 + k) ltac:(lia)) as H2. rewrite H1 in H2. discriminate H2.
    - pose proof (run_mono P e co 40 s0 _ E ltac:(discriminate) (40 + k) ltac:(lia)) as H2. rewrite H1 in H2. discriminate H2.
    - pose proof (run_mono P e co 40 s0 _ E ltac:(discriminate) (40 + k) ltac:(lia)) as H2. rewrite H1 in H2. discriminate H2.
  Qed.
End Marshal.

Lemma strict_valid : forall d out, strict d out -> d < 4096 -> Valid out = Ok true.
Proof.
  intros d out H Hd. apply valid_complete. exists [], out, []. rewrite app_nil_r. repeat split; try reflexivity.
  eapply sval_mono; [apply strict_sub_sval; exact H|]. unfold MAX_RECURSE. cbn. lia.
Qed.

Definition wf_outcome (o : outcome) (d : nat) : Prop :=
  (exists out, o = Done out /\ strict d out /\ (d < 4096 -> Valid out = Ok true)) \/ o = OutOfFuel.

(* d = the state-stack need of the value, one more under NoNullSliceOrMap (a nil slice is then `[]`) *)
Theorem marshal_wellformed_jit : forall e co flg t v prog,
  0 < MaxInlineDepth co -> EncOnlyOmitNull co = false ->
  frag e t -> compilable e co t -> has_type (fok_wf prims_jit) t v ->
  compile e co t (has_opts flg BitPointerValue) = COk prog -> need v <= 4096 ->
  wf_outcome (encode prims_jit e co flg (Some (t, v))) (need v + nil_depth (has_opts flg BitNoNullSliceOrMap)).
Proof.
  intros e co flg t v prog Hin Hnu Ht Hcp Hv Hc Hn.
  destruct (marshal_wellformed prims_jit e co jit_i64 jit_u64 ltac:(reflexivity) ltac:(discriminate) Hnu Hin flg t v prog Ht Hcp Hv Hc) as (out & Hs & [Ho|Ho]).
  - change (p_stack prims_jit) with 4096%N. lia.
  - left. exists out. repeat split; [exact Ho|exact Hs|]. intro Hd. eapply strict_valid; [exact Hs|exact Hd].
  - right. exact Ho.
Qed.

Theorem marshal_wellformed_vm : forall e co flg t v prog,
  0 < MaxInlineDepth co -> EncOnlyOmitNull co = false ->
  frag e t -> compilable e co t -> has_type (fok_wf prims_vm) t v ->
  compile e co t (has_opts flg BitPointerValue) = COk prog -> need v <= 4096 ->
  wf_outcome (encode prims_vm e co flg (Some (t, v))) (need v + nil_depth (has_opts flg BitNoNullSliceOrMap)).
Proof.
  intros e co flg t v prog Hin Hnu Ht Hcp Hv Hc Hn.
  destruct (marshal_wellformed prims_vm e co ltac:(reflexivity) ltac:(reflexivity) ltac:(reflexivity) ltac:(discriminate) Hnu Hin flg t v prog Ht Hcp Hv Hc) as (out & Hs & [Ho|Ho]).
  - change (p_stack prims_vm) with 4096%N. lia.
  - left. exists out. repeat split; [exact Ho|exact Hs|]. intro Hd. eapply strict_valid; [exact Hs|exact Hd].
  - right. exact Ho.
Qed.
