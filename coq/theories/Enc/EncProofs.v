(* C03 - the compiled program of a type, run by the machine, appends exactly what the reference encoder
   (Enc/StdEnc.v, encoding/json) produces.  Proved for the fragment of Frag.v: scalars, pointers, slices (incl. []byte),
   arrays, arbitrarily nested; every value; every executor whose primitives print integers like strconv. *)
From Coq Require Import List NArith ZArith Bool Lia.
From SV.Num Require Import NumGrammar.
From SV.Enc Require Import Prims Ty Val IR Compile JsonLite MapSort VM StdEnc.
From SV.Enc Require Import TyLemmas Sim Frag Steps.
Import ListNotations.
Local Open Scope nat_scope.

(* sonic's spelling of string literals before the post passes *)
Definition Qraw : quoting := {| q1 := fun s => quote s false; q2 := fun s => quote s true |}.

(* state-stack frames the encoding of a value needs *)
Fixpoint need (v : val) : nat :=
  match v with
  | VPtr (Some x) => S (need x)
  | VSlice (Some l) => S ((fix mx (l : list val) : nat := match l with [] => 0 | x :: r => Nat.max (need x) (mx r) end) l)
  | VArr l => S ((fix mx (l : list val) : nat := match l with [] => 0 | x :: r => Nat.max (need x) (mx r) end) l)
  | VStruct l => S ((fix mx (l : list val) : nat := match l with [] => 0 | x :: r => Nat.max (need x) (mx r) end) l)
  | _ => 0
  end.

Definition need_list (l : list val) : nat :=
  (fix mx (l : list val) : nat := match l with [] => 0 | x :: r => Nat.max (need x) (mx r) end) l.

Lemma need_list_in : forall l x, In x l -> need x <= need_list l.
Proof.
  induction l as [|y l IH]; intros x H; [destruct H|]. cbn [need_list]. destruct H as [->|H]; [lia|].
  specialize (IH x H). unfold need_list in IH. lia.
Qed.

Section Main.
  Variable P : prims.
  Variable e : env.
  Variable co : copts.
  Variable nn : bool.          (* the NoNullSliceOrMap bit of the option word *)

  (* what the theorem needs of the executor and of the option word *)
  Hypothesis Hi : forall z, (- 2 ^ 63 <= z < 2 ^ 63)%Z -> p_i64toa P z = itoa z.
  Hypothesis Hu : forall z, (0 <= z < 2 ^ 64)%Z -> p_u64toa P z = utoa (Z.to_N z).
  Hypothesis Hq : forall s d, p_quote P s d = quote s d.
  Hypothesis Hbr : b_recurse P <> b_empty_arr P.
  Hypothesis Hnull : EncOnlyOmitNull co = false.

  (* the option word carries the NoNullSliceOrMap bit nn (a definition, so that `subst` leaves nn alone) *)
  Definition flag_nn (flg : N) : Prop := has_opts flg (b_empty_arr P) = nn.

  (* finite floats whose digit oracle the executor prints unchanged *)
  Definition fok (k : kind) (bits : N) (txt : option bytes) : Prop :=
    exists t, txt = Some t /\
      (k = KFloat64 -> is_nan_inf64 bits = false /\ p_f64toa P bits t = t) /\
      (k = KFloat32 -> is_nan_inf32 bits = false /\ p_f32toa P bits t = t).

  Notation has_type := (has_type fok).
  Notation steps := (steps P e co).

  Definition code_ok (t : ty) (c : list instr) (pc : nat) : Prop :=
    forall flg prog r rest o k rqs v fuel addr res,
      flag_nn flg ->
      code_at prog pc c -> loc e (rp r) t v -> has_type t v ->
      std_enc e Qraw nn fuel t v addr false = SOk res ->
      (N.of_nat (length k + need v) <= p_stack P)%N ->
      exists n o' rqs', steps n (mks prog pc flg r rest o k rqs) (mks prog (pc + length c) flg r rest o' k rqs') /\
                        out_bytes o' = out_bytes o ++ res.

  Lemma as_signed_id : forall w z, (0 < w)%N -> (- 2 ^ (Z.of_N w - 1) <= z < 2 ^ (Z.of_N w - 1))%Z -> as_signed w z = z.
  Proof.
    intros w z Hw Hz. unfold as_signed, pattern.
    assert (Hh : (2 ^ Z.of_N w = 2 * 2 ^ (Z.of_N w - 1))%Z) by (rewrite <- Z.pow_succ_r by lia; f_equal; lia).
    destruct (Z_lt_ge_dec z 0) as [Hn|Hn].
    - assert (Hm : (z mod 2 ^ Z.of_N w = z + 2 ^ Z.of_N w)%Z).
      { symmetry. apply Z.mod_unique with (q := (-1)%Z); lia. }
      rewrite Hm. assert ((z + 2 ^ Z.of_N w <? 2 ^ (Z.of_N w - 1))%Z = false) as -> by (apply Z.ltb_ge; lia). lia.
    - rewrite Z.mod_small by lia. assert ((z <? 2 ^ (Z.of_N w - 1))%Z = true) as -> by (apply Z.ltb_lt; lia). reflexivity.
  Qed.

  Lemma pattern_id : forall w z, (0 <= z < 2 ^ Z.of_N w)%Z -> pattern w z = z.
  Proof. intros. unfold pattern. apply Z.mod_small. assumption. Qed.

  (* ---- scalars *)
  Lemma scalar_ok : forall k cf tab cpv sp pc pv c, scalar_kind k = true -> tab_above tab (TPrim k) ->
    compileOne e co cf tab cpv sp pc (TPrim k) pv = COk c -> code_ok (TPrim k) c pc.
  Proof.
    intros k cf tab cpv sp pc pv c Hk Htab Hc.
    destruct cf as [|cf]; [discriminate Hc|]. cbn [compileOne] in Hc.
    rewrite (mem_ty_false _ _ Htab) in Hc.
    rewrite (frag_no_marshaler e e (TPrim k) pc pv Hk) in Hc.
    intros flg prog r rest o kk rqs v fuel addr res Hflg Hcode Hloc Hty Hstd Hstk.
    assert (Hleaf : leaf e (rp r) = Some (TPrim k, strip v)).
    { apply (loc_leaf e _ _ _ Hloc); [reflexivity|]. destruct k; try discriminate Hk; cbn; lia. }
    destruct fuel as [|fuel]; [discriminate Hstd|].
    cbn [std_enc] in Hstd.
    assert (Hn1 : implements e (TPrim k) MJson = false) by reflexivity.
    assert (Hn2 : implements e (TPrim k) MText = false) by reflexivity.
    assert (Hn3 : ptr_implements e (TPrim k) MJson = false) by reflexivity.
    assert (Hn4 : ptr_implements e (TPrim k) MText = false) by reflexivity.
    rewrite Hn1, Hn2, Hn3, Hn4, !andb_false_r in Hstd.
    inversion Hty as [b0 | k0 z Hr | k0 bits txt Hk0 Hfok | s0 | | | | |  | ]; subst; cbn [strip] in *.
    - (* bool *)
      cbn in Hc. inversion Hc; subst. destruct (code_at_cons _ _ _ _ Hcode) as [Hins _].
      cbn in Hstd. inversion Hstd; subst.
      cbn [length]. rewrite Nat.add_1_r. eexists 1, _, rqs. split.
      + apply steps_one. unfold VM.step, mks, mkf. cbn [frames fprog fpc]. rewrite Hins. cbn [fregs]. rewrite Hleaf. reflexivity.
      + rewrite out_cons. reflexivity.
    - (* integers *)
      unfold int_range_ok in Hr.
      destruct k; try discriminate Hk; cbn [int_bits] in Hr; try contradiction;
        cbn in Hc; inversion Hc; subst; destruct (code_at_cons _ _ _ _ Hcode) as [Hins _];
        cbn in Hstd; inversion Hstd; subst;
        (cbn [length]; rewrite Nat.add_1_r; eexists 1, _, rqs; split;
         [ apply steps_one; unfold VM.step, mks, mkf; cbn [frames fprog fpc]; rewrite Hins; cbn [fregs]; rewrite Hleaf; reflexivity
         | rewrite out_cons; f_equal;
           first [ rewrite as_signed_id by (first [lia | exact Hr]); apply Hi; cbn in Hr; lia
                 | rewrite pattern_id by exact Hr; apply Hu; cbn in Hr; lia ] ]).
    - (* floats *)
      destruct Hfok as [txt0 [-> [H64 H32]]].
      destruct Hk0 as [-> | ->]; cbn in Hc; inversion Hc; subst; destruct (code_at_cons _ _ _ _ Hcode) as [Hins _];
        cbn in Hstd; inversion Hstd; subst.
      + destruct (H32 eq_refl) as [Hnan Hp].
        cbn [length]; rewrite Nat.add_1_r; eexists 1, _, rqs; split;
         [ apply steps_one; unfold VM.step, mks, mkf; cbn [frames fprog fpc]; rewrite Hins; cbn [fregs]; rewrite Hleaf, Hnan; reflexivity
         | rewrite out_cons, Hp; reflexivity ].
      + destruct (H64 eq_refl) as [Hnan Hp].
        cbn [length]; rewrite Nat.add_1_r; eexists 1, _, rqs; split;
         [ apply steps_one; unfold VM.step, mks, mkf; cbn [frames fprog fpc]; rewrite Hins; cbn [fregs]; rewrite Hleaf, Hnan; reflexivity
         | rewrite out_cons, Hp; reflexivity ].
    - (* string *)
      cbn in Hc. inversion Hc; subst. destruct (code_at_cons _ _ _ _ Hcode) as [Hins _].
      cbn in Hstd. inversion Hstd; subst.
      cbn [length]. rewrite Nat.add_1_r. eexists 1, _, rqs. split.
      + apply steps_one. unfold VM.step, mks, mkf. cbn [frames fprog fpc]. rewrite Hins. cbn [fregs]. rewrite Hleaf. reflexivity.
      + rewrite out_cons, Hq. reflexivity.
  Qed.

  Lemma nth_mid : forall (A : Type) (a : list A) x r, nth_error (a ++ x :: r) (length a) = Some x.
  Proof. intros. rewrite nth_error_app2 by lia. rewrite Nat.sub_diag. reflexivity. Qed.

  Lemma nth_off : forall (A : Type) (a b : list A) k, nth_error (a ++ b) (length a + k) = nth_error b k.
  Proof. intros. rewrite nth_error_app2 by lia. f_equal. lia. Qed.

  Lemma code_nth : forall prog pc c i ins, code_at prog pc c -> nth_error c i = Some ins -> nth_error prog (pc + i) = Some ins.
  Proof. intros prog pc c i ins H Hn. apply H. exact Hn. Qed.

  Lemma code_hd : forall prog pc i c, code_at prog pc (i :: c) -> nth_error prog pc = Some i.
  Proof. intros prog pc i c H. exact (proj1 (code_at_cons _ _ _ _ H)). Qed.

  Lemma regs_eta : forall r, {| rx := rx r; rcond := rcond r; rinit := rinit r; rp := rp r; rq := rq r |} = r.
  Proof. destruct r; reflexivity. Qed.

  (* ---- pointers *)
  Lemma ptr_ok : forall el, frag e el ->
    (forall cf tab cpv sp pc pv c, tab_above tab el -> compileOne e co cf tab cpv sp pc el pv = COk c -> code_ok el c pc) ->
    forall cf tab cpv sp pc pv c, tab_above tab (TPtr el) ->
      compileOne e co cf tab cpv sp pc (TPtr el) pv = COk c -> code_ok (TPtr el) c pc.
  Proof.
    intros el Hel IH cf tab cpv sp pc pv c Htab Hc.
    destruct cf as [|cf]; [discriminate Hc|]. cbn [compileOne] in Hc.
    rewrite (mem_ty_false _ _ Htab) in Hc.
    rewrite (frag_no_marshaler e e (TPtr el) pc pv Hel) in Hc.
    unfold compileOps in Hc. cbn [rkind_of unfold] in Hc.
    unfold compileNil, cbind, compilePtrBody, Tag, one in Hc. cbn [elem_of unfold] in Hc.
    destruct (N.of_nat sp <? MaxStack)%N; [|discriminate Hc].
    destruct (compileOne e co cf (TPtr el :: tab) pv (sp + 1) (pc + 1 + 2) el true) as [ce|] eqn:Ece; [|discriminate Hc].
    unfold cbind in Hc. injection Hc as Hc. subst c.
    assert (Hce : code_ok el ce (pc + 1 + 2)).
    { eapply IH; [|exact Ece]. intros a [<-|Ha]; [cbn; lia|]. specialize (Htab a Ha). cbn in Htab. lia. }
    match goal with |- code_ok _ ?cc _ => remember cc as c0 eqn:Ec0 end.
    assert (Hlen : length c0 = length ce + 6) by (rewrite Ec0; cbn [length]; rewrite !app_length; cbn [length]; lia).
    assert (N0 : nth_error c0 0 = Some (OP_is_nil (pc + length ce + 5))).
    { rewrite Ec0. cbn [nth_error]. rewrite app_length. cbn [length]. do 2 f_equal. lia. }
    assert (N1 : nth_error c0 1 = Some OP_save) by (rewrite Ec0; reflexivity).
    assert (N2 : nth_error c0 2 = Some OP_deref) by (rewrite Ec0; reflexivity).
    assert (Ec1 : c0 = ([OP_is_nil (pc + length ce + 5); OP_save; OP_deref] ++ ce) ++ [OP_drop; OP_goto (pc + length ce + 6); OP_null]).
    { rewrite Ec0. cbn [app]. rewrite <- app_assoc. cbn [app]. rewrite !app_length. cbn [length].
      replace (pc + S (S (length ce + 1)) + 2) with (pc + length ce + 5) by lia.
      replace (pc + S (S (length ce + 1)) + 3) with (pc + length ce + 6) by lia. reflexivity. }
    assert (Hl1 : length ([OP_is_nil (pc + length ce + 5); OP_save; OP_deref] ++ ce) = 3 + length ce) by (rewrite app_length; reflexivity).
    assert (N3 : nth_error c0 (3 + length ce) = Some OP_drop).
    { rewrite Ec1. replace (3 + length ce) with (length ([OP_is_nil (pc + length ce + 5); OP_save; OP_deref] ++ ce) + 0) by (rewrite Hl1; lia).
      rewrite nth_off. reflexivity. }
    assert (N4 : nth_error c0 (4 + length ce) = Some (OP_goto (pc + length ce + 6))).
    { rewrite Ec1. replace (4 + length ce) with (length ([OP_is_nil (pc + length ce + 5); OP_save; OP_deref] ++ ce) + 1) by (rewrite Hl1; lia).
      rewrite nth_off. reflexivity. }
    assert (N5 : nth_error c0 (5 + length ce) = Some OP_null).
    { rewrite Ec1. replace (5 + length ce) with (length ([OP_is_nil (pc + length ce + 5); OP_save; OP_deref] ++ ce) + 2) by (rewrite Hl1; lia).
      rewrite nth_off. reflexivity. }
    assert (Cce0 : forall prog, code_at prog pc c0 -> code_at prog (pc + 3) ce).
    { intros prog Hcode i ins Hn. rewrite <- Nat.add_assoc. apply Hcode. rewrite Ec1.
      rewrite nth_error_app1 by (rewrite Hl1; assert (i < length ce) by (apply nth_error_Some; congruence); lia).
      change ([OP_is_nil (pc + length ce + 5); OP_save; OP_deref] ++ ce) with (OP_is_nil (pc + length ce + 5) :: OP_save :: OP_deref :: ce).
      exact Hn. }
    clear Ec0 Ec1.
    intros flg prog r rest o kk rqs v fuel addr res Hflg Hcode Hloc Hty Hstd Hstk.
    assert (Hleaf : leaf e (rp r) = Some (TPtr el, strip v)).
    { apply (loc_leaf e _ _ _ Hloc); [reflexivity|cbn; lia]. }
    rewrite Hlen.
    assert (I0 := code_nth _ _ _ _ _ Hcode N0). rewrite Nat.add_0_r in I0.
    assert (I1 := code_nth _ _ _ _ _ Hcode N1).
    assert (I2 := code_nth _ _ _ _ _ Hcode N2).
    assert (I3 := code_nth _ _ _ _ _ Hcode N3).
    assert (I4 := code_nth _ _ _ _ _ Hcode N4).
    assert (I5 := code_nth _ _ _ _ _ Hcode N5).
    destruct fuel as [|fuel]; [discriminate Hstd|]. cbn [std_enc] in Hstd.
    assert (Hn1 : implements e (TPtr el) MJson = false) by (apply (frag_implements e e (TPtr el) MJson Hel)).
    assert (Hn2 : implements e (TPtr el) MText = false) by (apply (frag_implements e e (TPtr el) MText Hel)).
    rewrite Hn1, Hn2 in Hstd. cbn [rkind_of unfold negb andb] in Hstd.
    inversion Hty as [ | | | | el0 | el0 x Hx | | |  | ]; subst; cbn [strip] in *.
    - (* nil pointer *)
      injection Hstd as <-.
      eexists 2, _, rqs. split.
      + eapply steps_S; [eapply step_is_nil; [exact I0|exact Hleaf|reflexivity]|]. cbn [word0_zero].
        replace (pc + length ce + 5) with (pc + (5 + length ce)) by lia.
        eapply steps_S; [apply step_null; exact I5|].
        replace (S (pc + (5 + length ce))) with (pc + (length ce + 6)) by lia. apply steps_O.
      + rewrite out_cons. reflexivity.
    - (* pointer to x *)
      assert (Hsave : (N.of_nat (length kk) < p_stack P)%N) by (cbn [need] in Hstk; lia).
      assert (Cce : code_at prog (pc + 1 + 2) ce) by (replace (pc + 1 + 2) with (pc + 3) by lia; apply Cce0; exact Hcode).
      destruct (Hce flg prog (set_p r (PAt el x 0)) rest o (r :: kk) rqs x fuel true res Hflg Cce) as (n & o' & rq' & Hst & Ho).
      { cbn [rp set_p]. apply loc_root. }
      { exact Hx. }
      { exact Hstd. }
      { cbn [need length] in *. lia. }
      eexists (3 + n + 2), o', rq'. split; [|exact Ho].
      eapply steps_S; [eapply step_is_nil; [exact I0|exact Hleaf|reflexivity]|]. cbn [word0_zero].
      replace (S pc) with (pc + 1) by lia.
      eapply steps_S; [apply step_save; [exact I1|exact Hsave]|].
      replace (S (pc + 1)) with (pc + 2) by lia.
      eapply steps_S; [eapply step_deref; [exact I2|exact Hleaf|reflexivity]|].
      replace (S (pc + 2)) with (pc + 1 + 2) by lia.
      eapply steps_trans; [exact Hst|].
      replace (pc + 1 + 2 + length ce) with (pc + (3 + length ce)) by lia.
      eapply steps_S; [apply step_drop; exact I3|].
      replace (S (pc + (3 + length ce))) with (pc + (4 + length ce)) by lia.
      eapply steps_S; [apply step_goto; exact I4|].
      replace (pc + length ce + 6) with (pc + (length ce + 6)) by lia. apply steps_O.
  Qed.

  (* ---- sequences: the items of an array / slice in the reference encoder *)
  Definition enc_list (f : nat) (el : ty) (addr : bool) : list val -> sres :=
    fix go (l : list val) : sres :=
      match l with
      | [] => SOk []
      | x :: r => dos a <- std_enc e Qraw nn f el x addr false; dos b <- go r;
                  SOk (match r with [] => a | _ => a ++ [44%N] ++ b end)
      end.

  Lemma enc_list_unfold : forall f el addr x r, enc_list f el addr (x :: r) =
    sbind (std_enc e Qraw nn f el x addr false) (fun a => sbind (enc_list f el addr r) (fun b =>
      SOk (match r with [] => a | _ => a ++ [44%N] ++ b end))).
  Proof. reflexivity. Qed.

  (* what follows the first item: ",x,y,z" *)
  Definition tail_items (f : nat) (el : ty) (addr : bool) (l : list val) : sres :=
    match l with [] => SOk [] | _ => dos b <- enc_list f el addr l; SOk ([44%N] ++ b) end.

  Lemma enc_list_cons : forall f el addr x r a tb,
    std_enc e Qraw nn f el x addr false = SOk a -> tail_items f el addr r = SOk tb ->
    enc_list f el addr (x :: r) = SOk (a ++ tb).
  Proof.
    intros f el addr x r a tb Ha Ht. rewrite enc_list_unfold. rewrite Ha. unfold sbind.
    destruct r as [|y r'].
    - cbn in Ht. injection Ht as <-. cbn. rewrite app_nil_r. reflexivity.
    - unfold tail_items, sbind in Ht. destruct (enc_list f el addr (y :: r')) as [b|]; [|discriminate Ht].
      injection Ht as <-. reflexivity.
  Qed.

  Lemma enc_list_inv : forall f el addr x r items, enc_list f el addr (x :: r) = SOk items ->
    exists a tb, std_enc e Qraw nn f el x addr false = SOk a /\ tail_items f el addr r = SOk tb /\ items = a ++ tb.
  Proof.
    intros f el addr x r items H. rewrite enc_list_unfold in H. unfold sbind in H.
    destruct (std_enc e Qraw nn f el x addr false) as [a|] eqn:Ea; [|discriminate H].
    destruct (enc_list f el addr r) as [b|] eqn:Eb; [|discriminate H].
    exists a. destruct r as [|y r'].
    - exists []. injection H as <-. repeat split; try reflexivity. rewrite app_nil_r. reflexivity.
    - exists ([44%N] ++ b). injection H as <-. repeat split; try reflexivity. unfold tail_items, sbind. rewrite Eb. reflexivity.
  Qed.

  Lemma tail_items_cons : forall f el addr y r tb, tail_items f el addr (y :: r) = SOk tb ->
    exists a tb', std_enc e Qraw nn f el y addr false = SOk a /\ tail_items f el addr r = SOk tb' /\ tb = [44%N] ++ a ++ tb'.
  Proof.
    intros f el addr y r tb H. unfold tail_items, sbind in H.
    destruct (enc_list f el addr (y :: r)) as [b|] eqn:Eb; [|discriminate H]. injection H as <-.
    destruct (enc_list_inv _ _ _ _ _ _ Eb) as (a & tb' & Ha & Ht & ->). exists a, tb'. repeat split; assumption.
  Qed.

  Lemma std_enc_array : forall f n el l addr q, frag e el ->
    std_enc e Qraw nn (S f) (TArray n el) (VArr l) addr q =
    sbind (enc_list f el addr l) (fun items => SOk ([91%N] ++ items ++ [93%N])).
  Proof. intros. destruct addr; reflexivity. Qed.

  Lemma std_enc_slice : forall f el l addr q, frag e el -> is_simple_byte e el = false ->
    std_enc e Qraw nn (S f) (TSlice el) (VSlice (Some l)) addr q =
    sbind (enc_list f el true l) (fun items => SOk ([91%N] ++ items ++ [93%N])).
  Proof.
    intros f el l addr q Hel Hsb.
    destruct el as [k|n x|x|kt x|x|ik|sz ph fs|id]; cbn in Hel; try contradiction; destruct addr; try reflexivity;
      destruct k; try discriminate Hel; try discriminate Hsb; reflexivity.
  Qed.

  Lemma skipn_nth : forall (A : Type) (l : list A) i, i < length l -> exists x, nth_error l i = Some x /\ skipn i l = x :: skipn (S i) l.
  Proof.
    intros A l. induction l as [|y l IH]; intros i Hlt; [cbn in Hlt; lia|].
    destruct i as [|i]; [exists y; split; reflexivity|].
    cbn [length] in Hlt. destruct (IH i ltac:(lia)) as (x & Hn & Hs). exists x. split; [exact Hn|]. exact Hs.
  Qed.

  Lemma load_back : forall r p', {| rx := rx r; rcond := rcond (set_p r p'); rinit := rinit (set_p r p'); rp := rp r; rq := rq r |} = r.
  Proof. destruct r; reflexivity. Qed.

  Section Seq.
    Variable el : ty.
    Hypothesis Hel : frag e el.
    Hypothesis IHel : forall cf tab cpv sp pc pv c, tab_above tab el ->
      compileOne e co cf tab cpv sp pc el pv = COk c -> code_ok el c pc.

    (* the items after the first one of an array: ",x" per item, cursor restored by OP_load *)
    Lemma arrayRest_ok : forall n cf tab cpv i sp pc code, tab_above tab el ->
      arrayRest e (compileOne e co cf) tab cpv n i sp pc el = COk code ->
      forall flg prog r rest o kk rqs l fuel addr tb,
        flag_nn flg ->
        code_at prog pc code ->
        loc e (rp r) (TArray (length l) el) (VArr l) ->
        (forall x, In x l -> has_type el x) ->
        N.to_nat i + n = length l ->
        tail_items fuel el addr (skipn (N.to_nat i) l) = SOk tb ->
        (N.of_nat (S (length kk) + need_list l) <= p_stack P)%N ->
        exists m o' rqs', steps m (mks prog pc flg r rest o (r :: kk) rqs) (mks prog (pc + length code) flg r rest o' (r :: kk) rqs')
                     /\ out_bytes o' = out_bytes o ++ tb.
    Proof.
      induction n as [|n IHn]; intros cf tab cpv i sp pc code Htab Hc flg prog r rest o kk rqs l fuel addr tb Hflg Hcode Hloc Hty Hlen Htl Hstk.
      - cbn [arrayRest] in Hc. injection Hc as <-.
        rewrite skipn_all2 in Htl by lia. cbn in Htl. injection Htl as <-.
        exists 0, o, rqs. split; [cbn [length]; rewrite Nat.add_0_r; apply steps_O|rewrite app_nil_r; reflexivity].
      - cbn [arrayRest] in Hc. unfold cbind, one in Hc.
        destruct (compileOne e co cf tab cpv (sp + 1) (pc + 2) el cpv) as [ci|] eqn:Eci; [|discriminate Hc].
        destruct (arrayRest e (compileOne e co cf) tab cpv n (i + 1)%N sp (pc + 2 + length ci + 1) el) as [cr|] eqn:Ecr; [|discriminate Hc].
        injection Hc as <-.
        destruct (skipn_nth _ l (N.to_nat i) ltac:(lia)) as (x & Hnth & Hsk). rewrite Hsk in Htl.
        destruct (tail_items_cons _ _ _ _ _ _ Htl) as (a & tb' & Ha & Htl' & ->).
        assert (Hin : In x l) by (eapply nth_error_In; exact Hnth).
        (* code layout *)
        assert (I0 : nth_error prog pc = Some (OP_byte 44)).
        { rewrite <- (Nat.add_0_r pc). eapply code_nth; [exact Hcode|reflexivity]. }
        assert (I1 : nth_error prog (pc + 1) = Some (OP_index (i * sizeof e el))).
        { eapply code_nth; [exact Hcode|reflexivity]. }
        pose proof (code_at_app_r prog pc [OP_byte 44; OP_index (i * sizeof e el)] (ci ++ [OP_load] ++ cr) Hcode) as H1.
        cbn [length] in H1.
        pose proof (code_at_app_l _ _ _ _ H1) as Cci.
        pose proof (code_at_app_r _ _ _ _ H1) as H2.
        assert (I2 : nth_error prog (pc + 2 + length ci) = Some OP_load).
        { rewrite <- (Nat.add_0_r (pc + 2 + length ci)). eapply code_nth; [exact H2|reflexivity]. }
        pose proof (code_at_app_r prog (pc + 2 + length ci) [OP_load] cr H2) as Ccr. cbn [length] in Ccr.
        (* the item *)
        destruct (IHel cf tab cpv (sp + 1) (pc + 2) cpv ci Htab Eci flg prog (set_p r (padd (rp r) (i * sizeof e el))) rest ([44%N] :: o) (r :: kk) rqs x fuel addr a Hflg Cci)
          as (m1 & o1 & rq1 & Hst1 & Ho1).
        { cbn [rp set_p]. rewrite <- (N2Nat.id i). eapply loc_elem; [exact Hloc|reflexivity|exact Hnth]. }
        { apply Hty. exact Hin. }
        { exact Ha. }
        { pose proof (need_list_in _ _ Hin). cbn [length]. lia. }
        (* the remaining items *)
        destruct (IHn cf tab cpv (i + 1)%N sp (pc + 2 + length ci + 1) cr Htab Ecr flg prog r rest o1 kk rq1 l fuel addr tb' Hflg Ccr Hloc Hty)
          as (m2 & o2 & rq2 & Hst2 & Ho2).
        { lia. }
        { replace (N.to_nat (i + 1)) with (S (N.to_nat i)) by lia. exact Htl'. }
        { exact Hstk. }
        match goal with |- context [pc + length ?cc] =>
          replace (pc + length cc) with (pc + 2 + length ci + 1 + length cr) by (cbn [length]; rewrite app_length; cbn [length]; lia) end.
        exists (2 + m1 + 1 + m2), o2, rq2. split.
        + eapply steps_S; [apply step_byte; exact I0|].
          replace (S pc) with (pc + 1) by lia.
          eapply steps_S; [apply step_index; exact I1|].
          replace (S (pc + 1)) with (pc + 2) by lia.
          eapply steps_trans; [eapply steps_trans; [exact Hst1|]|].
          * eapply steps_one. rewrite step_load by exact I2. rewrite load_back. reflexivity.
          * replace (S (pc + 2 + length ci)) with (pc + 2 + length ci + 1) by lia.
            exact Hst2.
        + rewrite Ho2, Ho1, out_cons. rewrite <- !app_assoc. reflexivity.
    Qed.

    Lemma loc_padd0 : forall p t v, loc e (padd p 0%N) t v -> (exists bt bv off, p = PAt bt bv off) -> loc e p t v.
    Proof. intros p t v H (bt & bv & off & ->). cbn [padd] in H. rewrite N.add_0_r in H. exact H. Qed.

    Lemma array_ok : forall n cf tab cpv sp pc pv c, tab_above tab (TArray n el) ->
      compileOne e co cf tab cpv sp pc (TArray n el) pv = COk c -> code_ok (TArray n el) c pc.
    Proof.
      intros n cf tab cpv sp pc pv c Htab Hc.
      destruct cf as [|cf]; [discriminate Hc|]. cbn [compileOne] in Hc.
      rewrite (mem_ty_false _ _ Htab) in Hc.
      rewrite (frag_no_marshaler e e (TArray n el) pc pv Hel) in Hc.
      unfold compileOps in Hc. cbn [rkind_of unfold] in Hc.
      unfold compileArray, Tag in Hc. cbn [elem_of len_of unfold] in Hc.
      destruct (N.of_nat sp <? MaxStack)%N; [|discriminate Hc].
      assert (Htab' : tab_above (TArray n el :: tab) el).
      { intros a [<-|Ha]; [cbn; lia|]. specialize (Htab a Ha). cbn in Htab. lia. }
      intros flg prog r rest o kk rqs v fuel addr res Hflg Hcode Hloc Hty Hstd Hstk.
      inversion Hty as [ | | | | | | | | n0 el0 l Hlen Hall  | ]; subst.
      destruct fuel as [|fuel]; [discriminate Hstd|]. rewrite (std_enc_array fuel _ el l addr false Hel) in Hstd.
      unfold sbind in Hstd. destruct (enc_list fuel el addr l) as [items|] eqn:Eitems; [|discriminate Hstd].
      injection Hstd as <-.
      assert (Hsave : (N.of_nat (length kk) < p_stack P)%N) by (cbn [need] in Hstk; lia).
      destruct l as [|x l'].
      - (* [0]T *)
        cbn [length] in Hc. injection Hc as <-. cbn in Eitems. injection Eitems as <-.
        assert (I0 : nth_error prog pc = Some (OP_byte 91)) by (rewrite <- (Nat.add_0_r pc); eapply code_nth; [exact Hcode|reflexivity]).
        assert (I1 : nth_error prog (pc + 1) = Some OP_save) by (eapply code_nth; [exact Hcode|reflexivity]).
        assert (I2 : nth_error prog (pc + 2) = Some OP_drop) by (eapply code_nth; [exact Hcode|reflexivity]).
        assert (I3 : nth_error prog (pc + 3) = Some (OP_byte 93)) by (eapply code_nth; [exact Hcode|reflexivity]).
        cbn [length]. eexists 4, _, rqs. split.
        + eapply steps_S; [apply step_byte; exact I0|]. replace (S pc) with (pc + 1) by lia.
          eapply steps_S; [apply step_save; [exact I1|exact Hsave]|]. replace (S (pc + 1)) with (pc + 2) by lia.
          eapply steps_S; [apply step_drop; exact I2|]. replace (S (pc + 2)) with (pc + 3) by lia.
          eapply steps_S; [apply step_byte; exact I3|]. replace (S (pc + 3)) with (pc + 4) by lia. apply steps_O.
        + rewrite !out_cons. rewrite <- !app_assoc. reflexivity.
      - (* first item, then the rest *)
        cbn [length] in Hc. unfold cbind, one in Hc.
        destruct (compileOne e co cf (TArray (S (length l')) el :: tab) pv (sp + 1) (pc + 2) el pv) as [c0|] eqn:Ec0; [|discriminate Hc].
        destruct (arrayRest e (compileOne e co cf) (TArray (S (length l')) el :: tab) pv (length l') 1%N sp (pc + 2 + length c0 + 1) el) as [cr|] eqn:Ecr; [|discriminate Hc].
        injection Hc as <-.
        destruct (enc_list_inv _ _ _ _ _ _ Eitems) as (a & tb & Ha & Htl & ->).
        assert (I0 : nth_error prog pc = Some (OP_byte 91)) by (rewrite <- (Nat.add_0_r pc); eapply code_nth; [exact Hcode|reflexivity]).
        assert (I1 : nth_error prog (pc + 1) = Some OP_save) by (eapply code_nth; [exact Hcode|reflexivity]).
        pose proof (code_at_app_r prog pc [OP_byte 91; OP_save] (c0 ++ [OP_load] ++ cr ++ [OP_drop; OP_byte 93]) Hcode) as H1. cbn [length] in H1.
        pose proof (code_at_app_l _ _ _ _ H1) as Cc0.
        pose proof (code_at_app_r _ _ _ _ H1) as H2.
        assert (I2 : nth_error prog (pc + 2 + length c0) = Some OP_load).
        { rewrite <- (Nat.add_0_r (pc + 2 + length c0)). eapply code_nth; [exact H2|reflexivity]. }
        pose proof (code_at_app_r prog (pc + 2 + length c0) [OP_load] (cr ++ [OP_drop; OP_byte 93]) H2) as H3. cbn [length] in H3.
        pose proof (code_at_app_l _ _ _ _ H3) as Ccr.
        pose proof (code_at_app_r _ _ _ _ H3) as H4.
        assert (I3 : nth_error prog (pc + 2 + length c0 + 1 + length cr) = Some OP_drop).
        { rewrite <- (Nat.add_0_r (pc + 2 + length c0 + 1 + length cr)). eapply code_nth; [exact H4|reflexivity]. }
        assert (I4 : nth_error prog (pc + 2 + length c0 + 1 + length cr + 1) = Some (OP_byte 93)).
        { eapply code_nth; [exact H4|reflexivity]. }
        assert (Hptr : exists bt bv off, rp r = PAt bt bv off) by (destruct Hloc as (bt & bv & off & Hp & _); eauto).
        destruct (IHel cf _ pv (sp + 1) (pc + 2) pv c0 Htab' Ec0 flg prog r rest ([91%N] :: o) (r :: kk) rqs x fuel addr a Hflg Cc0)
          as (m1 & o1 & rq1 & Hst1 & Ho1).
        { apply loc_padd0; [|exact Hptr]. change 0%N with (N.of_nat 0 * sizeof e el)%N.
          eapply loc_elem; [exact Hloc|reflexivity|reflexivity]. }
        { apply Hall. left. reflexivity. }
        { exact Ha. }
        { cbn [need length] in Hstk |- *. lia. }
        destruct (arrayRest_ok (length l') cf _ pv 1%N sp (pc + 2 + length c0 + 1) cr Htab' Ecr flg prog r rest o1 kk rq1 (x :: l') fuel addr tb Hflg Ccr Hloc Hall)
          as (m2 & o2 & rq2 & Hst2 & Ho2).
        { cbn [length]. lia. }
        { exact Htl. }
        { cbn [need] in Hstk. unfold need_list. lia. }
        match goal with |- context [pc + length ?cc] =>
          replace (pc + length cc) with (pc + 2 + length c0 + 1 + length cr + 2) by (cbn [length]; rewrite !app_length; cbn [length]; rewrite app_length; cbn [length]; lia) end.
        exists (2 + m1 + 1 + m2 + 2), ([93%N] :: o2), rq2. split.
        + eapply steps_S; [apply step_byte; exact I0|]. replace (S pc) with (pc + 1) by lia.
          eapply steps_S; [apply step_save; [exact I1|exact Hsave]|]. replace (S (pc + 1)) with (pc + 2) by lia.
          eapply steps_trans; [eapply steps_trans; [eapply steps_trans; [exact Hst1|]|]|].
          * eapply steps_one. rewrite step_load by exact I2. rewrite regs_eta. reflexivity.
          * replace (S (pc + 2 + length c0)) with (pc + 2 + length c0 + 1) by lia. exact Hst2.
          * eapply steps_S; [apply step_drop; exact I3|].
            replace (S (pc + 2 + length c0 + 1 + length cr)) with (pc + 2 + length c0 + 1 + length cr + 1) by lia.
            eapply steps_S; [apply step_byte; exact I4|].
            replace (S (pc + 2 + length c0 + 1 + length cr + 1)) with (pc + 2 + length c0 + 1 + length cr + 2) by lia. apply steps_O.
        + rewrite out_cons, Ho2, Ho1, out_cons. rewrite <- !app_assoc. reflexivity.
    Qed.

    (* the loop of a slice after its first item: at the second OP_slice_next *)
    Lemma slice_loop : forall n (l : list val) j fin c2 flg prog rest r0 kk,
      flag_nn flg ->
      nth_error prog j = Some (OP_slice_next fin el) -> nth_error prog (j + 1) = Some (OP_byte 44) ->
      code_at prog (j + 2) c2 -> nth_error prog (j + 2 + length c2) = Some (OP_goto j) ->
      code_ok el c2 (j + 2) ->
      (forall x, In x l -> has_type el x) ->
      (N.of_nat (S (length kk) + need_list l) <= p_stack P)%N ->
      forall i o rc q off tb fuel rqs,
        S i + n = length l -> off = (N.of_nat i * sizeof e el)%N ->
        tail_items fuel el true (skipn (S i) l) = SOk tb ->
        exists m o' rf rqs',
          steps m (mks prog j flg {| rx := n; rcond := rc; rinit := false; rp := PAt (TArray (length l) el) (VArr l) off; rq := q |} rest o (r0 :: kk) rqs)
                  (mks prog fin flg rf rest o' (r0 :: kk) rqs') /\ out_bytes o' = out_bytes o ++ tb.
    Proof.
      induction n as [|n IHn]; intros l j fin c2 flg prog rest r0 kk Hflg I0 I1 Cc2 I2 Hc2 Hty Hstk i o rc q off tb fuel rqs Hlen Hoff Htl.
      - rewrite skipn_all2 in Htl by lia. cbn in Htl. injection Htl as <-.
        eexists 1, o, _, rqs. split; [|rewrite app_nil_r; reflexivity].
        apply steps_one. eapply step_slice_next_end; [exact I0|reflexivity].
      - destruct (skipn_nth _ l (S i) ltac:(lia)) as (x & Hnth & Hsk). rewrite Hsk in Htl.
        destruct (tail_items_cons _ _ _ _ _ _ Htl) as (a & tb' & Ha & Htl' & ->).
        assert (Hin : In x l) by (eapply nth_error_In; exact Hnth).
        set (off' := (off + sizeof e el)%N).
        assert (Hoff' : off' = (N.of_nat (S i) * sizeof e el)%N) by (unfold off'; subst off; lia).
        destruct (Hc2 flg prog {| rx := n; rcond := rc; rinit := false; rp := PAt (TArray (length l) el) (VArr l) off'; rq := q |} rest ([44%N] :: o) (r0 :: kk) rqs x fuel true a Hflg Cc2)
          as (m1 & o1 & rq1 & Hst1 & Ho1).
        { cbn [rp]. rewrite Hoff'.
          change (PAt (TArray (length l) el) (VArr l) (N.of_nat (S i) * sizeof e el))
            with (padd (PAt (TArray (length l) el) (VArr l) 0) (N.of_nat (S i) * sizeof e el)).
          eapply loc_elem; [apply loc_root|reflexivity|exact Hnth]. }
        { apply Hty. exact Hin. }
        { exact Ha. }
        { pose proof (need_list_in _ _ Hin). cbn [length]. lia. }
        destruct (IHn l j fin c2 flg prog rest r0 kk Hflg I0 I1 Cc2 I2 Hc2 Hty Hstk (S i) o1 rc q off' tb' fuel rq1 ltac:(lia) Hoff' Htl')
          as (m2 & o2 & rf & rq2 & Hst2 & Ho2).
        exists (2 + m1 + 1 + m2), o2, rf, rq2. split.
        + eapply steps_S; [eapply step_slice_next_more; [exact I0|reflexivity|reflexivity]|]. cbn [rcond rp rq padd].
          fold off'. replace (S j) with (j + 1) by lia.
          eapply steps_S; [apply step_byte; exact I1|]. replace (S (j + 1)) with (j + 2) by lia.
          eapply steps_trans; [eapply steps_trans; [exact Hst1|]|].
          * eapply steps_one. apply step_goto. exact I2.
          * exact Hst2.
        + rewrite Ho2, Ho1, out_cons. rewrite <- !app_assoc. reflexivity.
    Qed.

    Lemma bytes_same : forall l, (forall x, In x l -> has_type (TPrim KUint8) x) ->
      (fix bs (l : list val) : option bytes :=
         match l with
         | [] => Some []
         | x :: r => match strip x, bs r with VInt z, Some b => Some (Z.to_N z :: b) | _, _ => None end
         end) l = bytes_of_vals l.
    Proof.
      induction l as [|x l IH]; intro H; [reflexivity|].
      assert (Hx := H x (or_introl eq_refl)).
      inversion Hx as [ | k z Hr | k bits txt Hk | | | | | |  | ]; subst.
      - cbn [strip bytes_of_vals]. rewrite IH by (intros y Hy; apply H; right; exact Hy). reflexivity.
      - destruct Hk; discriminate.
    Qed.

    Lemma slice_ok : forall cf tab cpv sp pc pv c, tab_above tab (TSlice el) ->
      compileOne e co cf tab cpv sp pc (TSlice el) pv = COk c -> code_ok (TSlice el) c pc.
    Proof.
      intros cf tab cpv sp pc pv c Htab Hc.
      destruct cf as [|cf]; [discriminate Hc|]. cbn [compileOne] in Hc.
      rewrite (mem_ty_false _ _ Htab) in Hc.
      rewrite (frag_no_marshaler e e (TSlice el) pc pv Hel) in Hc.
      unfold compileOps in Hc. cbn [rkind_of unfold] in Hc.
      unfold compileNil, cbind, compileSliceBody in Hc. cbn [elem_of unfold] in Hc.
      assert (Htab' : tab_above (TSlice el :: tab) el).
      { intros a [<-|Ha]; [cbn; lia|]. specialize (Htab a Ha). cbn in Htab. lia. }
      assert (Hleaf0 : forall r v, loc e (rp r) (TSlice el) v -> leaf e (rp r) = Some (TSlice el, strip v)).
      { intros r v Hloc. apply (loc_leaf e _ _ _ Hloc); [reflexivity|cbn; lia]. }
      destruct (is_simple_byte e el) eqn:Esb.
      - (* []byte *)
        injection Hc as <-.
        assert (Eel : el = TPrim KUint8).
        { unfold is_simple_byte in Esb. apply andb_true_iff in Esb. destruct Esb as [Esb _]. apply andb_true_iff in Esb. destruct Esb as [Esb _].
          clear - Hel Esb. destruct el as [k| | | | | | |]; cbn in Hel; try contradiction; try discriminate Esb. destruct k; try discriminate Esb. reflexivity. }
        intros flg prog r rest o kk rqs v fuel addr res Hflg Hcode Hloc Hty Hstd Hstk.
        pose proof (Hleaf0 r v Hloc) as Hleaf.
        assert (I0 : nth_error prog pc = Some (OP_is_nil (pc + 1 + 2))) by (eapply code_hd; exact Hcode).
        assert (I1 : nth_error prog (pc + 1) = Some OP_bin) by (eapply code_nth; [exact Hcode|reflexivity]).
        assert (I2 : nth_error prog (pc + 2) = Some (OP_goto (pc + 1 + 3))) by (eapply code_nth; [exact Hcode|reflexivity]).
        assert (I3 : nth_error prog (pc + 3) = Some OP_empty_arr) by (eapply code_nth; [exact Hcode|reflexivity]).
        destruct fuel as [|fuel]; [discriminate Hstd|].
        cbn [length].
        inversion Hty as [ | | | | | | el0 | el0 l Hall |  | ]; subst; cbn [strip] in *.
        + (* nil *)
          cbn in Hstd. replace (addr && false) with false in Hstd by (destruct addr; reflexivity). cbn in Hstd. injection Hstd as <-.
          eexists 2, _, rqs. split.
          * eapply steps_S; [eapply step_is_nil; [exact I0|exact Hleaf|reflexivity]|]. cbn [word0_zero].
            replace (pc + 1 + 2) with (pc + 3) by lia.
            eapply steps_S; [apply step_empty_arr; exact I3|].
            replace (S (pc + 3)) with (pc + 4) by lia. apply steps_O.
          * rewrite out_cons. rewrite (Hflg : has_opts flg (b_empty_arr P) = nn). reflexivity.
        + (* bytes *)
          cbn in Hstd. replace (addr && false) with false in Hstd by (destruct addr; reflexivity). cbn in Hstd.
          rewrite (bytes_same l Hall) in Hstd.
          destruct (bytes_of_vals l) as [bs|] eqn:Ebs; [|discriminate Hstd]. injection Hstd as <-.
          eexists 3, _, rqs. split.
          * eapply steps_S; [eapply step_is_nil; [exact I0|exact Hleaf|reflexivity]|]. cbn [word0_zero].
            replace (S pc) with (pc + 1) by lia.
            eapply steps_S; [eapply step_bin; [exact I1|exact Hleaf|exact Ebs]|].
            replace (S (pc + 1)) with (pc + 2) by lia.
            eapply steps_S; [apply step_goto; exact I2|].
            replace (pc + 1 + 3) with (pc + 4) by lia. apply steps_O.
          * rewrite out_cons. reflexivity.
      - (* general slice *)
        unfold compileSliceArray, Tag, cbind, one in Hc.
        destruct (N.of_nat sp <? MaxStack)%N; [|discriminate Hc].
        destruct (compileOne e co cf (TSlice el :: tab) pv (sp + 1) (pc + 1 + 5) el true) as [c1|] eqn:Ec1; [|discriminate Hc].
        destruct (compileOne e co cf (TSlice el :: tab) pv (sp + 1) (pc + 1 + 5 + length c1 + 2) el true) as [c2|] eqn:Ec2; [|discriminate Hc].
        injection Hc as <-.
        pose proof (IHel cf _ pv (sp + 1) (pc + 1 + 5) true c1 Htab' Ec1) as Hc1.
        pose proof (IHel cf _ pv (sp + 1) (pc + 1 + 5 + length c1 + 2) true c2 Htab' Ec2) as Hc2.
        set (j := pc + 6 + length c1).
        set (fin := j + 3 + length c2).
        match goal with |- code_ok _ ?cc _ => remember cc as cn eqn:Ecn end.
        assert (Eshape : cn = [OP_is_nil (fin + 3)] ++
                              ([OP_byte 91; OP_is_nil (fin + 1); OP_save; OP_slice_len; OP_slice_next fin el] ++ c1 ++
                               [OP_slice_next fin el; OP_byte 44] ++ c2 ++ [OP_goto j; OP_drop; OP_byte 93]) ++
                              [OP_goto (fin + 4); OP_empty_arr]).
        { rewrite Ecn. unfold fin, j. cbn [app length]. rewrite !app_length. cbn [length app]. rewrite !app_length. cbn [length].
          repeat (f_equal; try lia). }
        clear Ecn. subst cn.
        assert (Hlen : length ([OP_is_nil (fin + 3)] ++
                              ([OP_byte 91; OP_is_nil (fin + 1); OP_save; OP_slice_len; OP_slice_next fin el] ++ c1 ++
                               [OP_slice_next fin el; OP_byte 44] ++ c2 ++ [OP_goto j; OP_drop; OP_byte 93]) ++
                              [OP_goto (fin + 4); OP_empty_arr]) = fin + 4 - pc).
        { repeat (rewrite app_length; cbn [length]). unfold fin, j. lia. }
        intros flg prog r rest o kk rqs v fuel addr res Hflg Hcode Hloc Hty Hstd Hstk.
        rewrite Hlen. replace (pc + (fin + 4 - pc)) with (fin + 4) by (unfold fin, j; lia).
        pose proof (Hleaf0 r v Hloc) as Hleaf.
        assert (I0 : nth_error prog pc = Some (OP_is_nil (fin + 3))) by (eapply code_hd; exact Hcode).
        pose proof (code_at_app_r prog pc [OP_is_nil (fin + 3)] _ Hcode) as H1. cbn [length] in H1.
        pose proof (code_at_app_l _ _ _ _ H1) as Hb.
        pose proof (code_at_app_r _ _ _ _ H1) as Hend.
        assert (Hblen : length ([OP_byte 91; OP_is_nil (fin + 1); OP_save; OP_slice_len; OP_slice_next fin el] ++ c1 ++
                               [OP_slice_next fin el; OP_byte 44] ++ c2 ++ [OP_goto j; OP_drop; OP_byte 93]) = fin + 1 - pc).
        { repeat (rewrite app_length; cbn [length]). unfold fin, j. lia. }
        rewrite Hblen in Hend. replace (pc + 1 + (fin + 1 - pc)) with (fin + 2) in Hend by (unfold fin, j; lia).
        assert (Iend0 : nth_error prog (fin + 2) = Some (OP_goto (fin + 4))) by (eapply code_hd; exact Hend).
        assert (Iend1 : nth_error prog (fin + 3) = Some OP_empty_arr).
        { replace (fin + 3) with (fin + 2 + 1) by lia. eapply code_nth; [exact Hend|reflexivity]. }
        assert (B0 : nth_error prog (pc + 1) = Some (OP_byte 91)) by (eapply code_hd; exact Hb).
        assert (B1 : nth_error prog (pc + 2) = Some (OP_is_nil (fin + 1))) by (replace (pc + 2) with (pc + 1 + 1) by lia; eapply code_nth; [exact Hb|reflexivity]).
        assert (B2 : nth_error prog (pc + 3) = Some OP_save) by (replace (pc + 3) with (pc + 1 + 2) by lia; eapply code_nth; [exact Hb|reflexivity]).
        assert (B3 : nth_error prog (pc + 4) = Some OP_slice_len) by (replace (pc + 4) with (pc + 1 + 3) by lia; eapply code_nth; [exact Hb|reflexivity]).
        assert (B4 : nth_error prog (pc + 5) = Some (OP_slice_next fin el)) by (replace (pc + 5) with (pc + 1 + 4) by lia; eapply code_nth; [exact Hb|reflexivity]).
        pose proof (code_at_app_r prog (pc + 1) [OP_byte 91; OP_is_nil (fin + 1); OP_save; OP_slice_len; OP_slice_next fin el] _ Hb) as H2. cbn [length] in H2.
        pose proof (code_at_app_l _ _ _ _ H2) as Cc1.
        pose proof (code_at_app_r _ _ _ _ H2) as H3.
        replace (pc + 1 + 5 + length c1) with j in H3 by (unfold j; lia).
        assert (J0 : nth_error prog j = Some (OP_slice_next fin el)) by (eapply code_hd; exact H3).
        assert (J1 : nth_error prog (j + 1) = Some (OP_byte 44)) by (eapply code_nth; [exact H3|reflexivity]).
        pose proof (code_at_app_r prog j [OP_slice_next fin el; OP_byte 44] _ H3) as H4. cbn [length] in H4.
        pose proof (code_at_app_l _ _ _ _ H4) as Cc2.
        pose proof (code_at_app_r _ _ _ _ H4) as H5.
        assert (J2 : nth_error prog (j + 2 + length c2) = Some (OP_goto j)) by (eapply code_hd; exact H5).
        assert (F0 : nth_error prog fin = Some OP_drop).
        { replace fin with (j + 2 + length c2 + 1) by (unfold fin; lia). eapply code_nth; [exact H5|reflexivity]. }
        assert (F1 : nth_error prog (fin + 1) = Some (OP_byte 93)).
        { replace (fin + 1) with (j + 2 + length c2 + 2) by (unfold fin; lia). eapply code_nth; [exact H5|reflexivity]. }
        replace (pc + 1 + 5 + length c1 + 2) with (j + 2) in Hc2 by (unfold j; lia).
        destruct fuel as [|fuel]; [discriminate Hstd|].
        inversion Hty as [ | | | | | | el0 | el0 l Hall |  | ]; subst; cbn [strip] in *.
        + (* nil slice *)
          cbn in Hstd. replace (addr && false) with false in Hstd by (destruct addr; reflexivity). cbn in Hstd. injection Hstd as <-.
          eexists 2, _, rqs. split.
          * eapply steps_S; [eapply step_is_nil; [exact I0|exact Hleaf|reflexivity]|]. cbn [word0_zero].
            eapply steps_S; [apply step_empty_arr; exact Iend1|].
            replace (S (fin + 3)) with (fin + 4) by lia. apply steps_O.
          * rewrite out_cons. rewrite (Hflg : has_opts flg (b_empty_arr P) = nn). reflexivity.
        + (* non-nil slice *)
          rewrite (std_enc_slice fuel el l addr false Hel Esb) in Hstd. unfold sbind in Hstd.
          destruct (enc_list fuel el true l) as [items|] eqn:Eitems; [|discriminate Hstd]. injection Hstd as <-.
          assert (Hsave : (N.of_nat (length kk) < p_stack P)%N) by (cbn [need] in Hstk; lia).
          (* common prefix: is_nil, '[', is_nil, save, slice_len *)
          assert (Hpre : forall o0 rq0, steps 5 (mks prog pc flg r rest o0 kk rq0)
                    (mks prog (pc + 5) flg {| rx := length l; rcond := rcond r; rinit := true;
                                              rp := PAt (TArray (length l) el) (VArr l) 0; rq := rq r |} rest ([91%N] :: o0) (r :: kk) rq0)).
          { intros o0 rq0.
            eapply steps_S; [eapply step_is_nil; [exact I0|exact Hleaf|reflexivity]|]. cbn [word0_zero].
            replace (S pc) with (pc + 1) by lia.
            eapply steps_S; [apply step_byte; exact B0|]. replace (S (pc + 1)) with (pc + 2) by lia.
            eapply steps_S; [eapply step_is_nil; [exact B1|exact Hleaf|reflexivity]|]. cbn [word0_zero].
            replace (S (pc + 2)) with (pc + 3) by lia.
            eapply steps_S; [apply step_save; [exact B2|exact Hsave]|]. replace (S (pc + 3)) with (pc + 4) by lia.
            eapply steps_S; [eapply step_slice_len; [exact B3|exact Hleaf]|]. replace (S (pc + 4)) with (pc + 5) by lia.
            apply steps_O. }
          (* common suffix from fin: drop, ']', goto *)
          assert (Hpost : forall rf o0 rq0, steps 3 (mks prog fin flg rf rest o0 (r :: kk) rq0) (mks prog (fin + 4) flg r rest ([93%N] :: o0) kk rq0)).
          { intros rf o0 rq0.
            eapply steps_S; [apply step_drop; exact F0|]. replace (S fin) with (fin + 1) by lia.
            eapply steps_S; [apply step_byte; exact F1|]. replace (S (fin + 1)) with (fin + 2) by lia.
            eapply steps_S; [apply step_goto; exact Iend0|]. apply steps_O. }
          destruct l as [|x l'].
          * (* empty *)
            cbn in Eitems. injection Eitems as <-.
            eexists (5 + (1 + 3)), _, rqs. split.
            -- eapply steps_trans; [apply Hpre|]. eapply steps_trans; [|apply Hpost].
               apply steps_one. eapply step_slice_next_end; [exact B4|reflexivity].
            -- rewrite !out_cons. rewrite <- !app_assoc. reflexivity.
          * destruct (enc_list_inv _ _ _ _ _ _ Eitems) as (a & tb & Ha & Htl & ->).
            set (r2 := {| rx := length l'; rcond := rcond r; rinit := false;
                          rp := PAt (TArray (length (x :: l')) el) (VArr (x :: l')) 0; rq := rq r |}).
            replace (pc + 1 + 5) with (pc + 6) in Hc1, Cc1 by lia.
            destruct (Hc1 flg prog r2 rest ([91%N] :: o) (r :: kk) rqs x fuel true a Hflg Cc1) as (m1 & o1 & rq1 & Hst1 & Ho1).
            { unfold r2. cbn [rp].
              change (PAt (TArray (length (x :: l')) el) (VArr (x :: l')) 0)
                with (padd (PAt (TArray (length (x :: l')) el) (VArr (x :: l')) 0) (N.of_nat 0 * sizeof e el)).
              eapply loc_elem; [apply loc_root|reflexivity|reflexivity]. }
            { apply Hall. left. reflexivity. }
            { exact Ha. }
            { cbn [need length] in Hstk |- *. lia. }
            replace (pc + 6 + length c1) with j in Hst1 by reflexivity.
            destruct (slice_loop (length l') (x :: l') j fin c2 flg prog rest r kk Hflg J0 J1 Cc2 J2 Hc2 Hall
                        ltac:(cbn [need] in Hstk; unfold need_list; lia) 0 o1 (rcond r) (rq r) 0%N tb fuel rq1
                        ltac:(cbn [length]; lia) eq_refl Htl) as (m2 & o2 & rf & rq2 & Hst2 & Ho2).
            eexists (5 + (1 + m1 + m2 + 3)), _, rq2. split.
            -- eapply steps_trans; [apply Hpre|]. eapply steps_trans; [|apply Hpost].
               eapply steps_S; [eapply step_slice_next_first; [exact B4|reflexivity|reflexivity]|]. cbn [rcond rp rq].
               replace (S (pc + 5)) with (pc + 6) by lia. fold r2.
               eapply steps_trans; [exact Hst1|exact Hst2].
            -- rewrite out_cons, Ho2, Ho1, out_cons. rewrite <- !app_assoc. reflexivity.
    Qed.
  End Seq.

  (* ---- structs *)
  Lemma compileOne_S : forall f tab cpv sp pc vt pv,
    compileOne e co (S f) tab cpv sp pc vt pv =
    if mem_ty vt tab then COk [OP_recurse vt pv]
    else match tryCompileMarshaler e pc vt pv with
         | Some c => COk c
         | None => compileOps e co (compileOne e co f) (vt :: tab) pv sp pc vt
         end.
  Proof. reflexivity. Qed.

  Lemma has_opts_set_other : forall fl b b', b <> b' -> has_opts (set_bit fl b) b' = has_opts fl b'.
  Proof.
    intros fl b b' Hne. unfold has_opts, set_bit. rewrite N.lor_spec. rewrite N.shiftl_1_l.
    rewrite N.pow2_bits_eqb. assert ((b =? b')%N = false) as -> by (apply N.eqb_neq; exact Hne). apply orb_false_r.
  Qed.

  Lemma has_opts_clear_other : forall fl b b', b <> b' -> has_opts (clear_bit fl b) b' = has_opts fl b'.
  Proof.
    intros fl b b' Hne. unfold has_opts, clear_bit. rewrite N.ldiff_spec. rewrite N.shiftl_1_l.
    rewrite N.pow2_bits_eqb. assert ((b =? b')%N = false) as -> by (apply N.eqb_neq; exact Hne). apply andb_true_r.
  Qed.

  Definition enc_fields (f : nat) (t : ty) (v : val) (addr : bool) : list field -> bool -> sres :=
    fix go (fs : list field) (first : bool) : sres :=
      match fs with
      | [] => SOk []
      | fd :: r =>
          match nav e (PAt t v 0) (f_path fd) addr with
          | None => SErr S_illtyped
          | Some None => go r first
          | Some (Some (p, a)) =>
              match typed e (f_type fd) p with
              | None => SErr S_illtyped
              | Some fv =>
                  if (F_omitempty fd && is_empty_value e (f_type fd) fv) || (F_omitzero fd && is_zero_val e (f_type fd) fv)
                  then go r first
                  else dos x <- std_enc e Qraw nn f (f_type fd) fv a (F_stringize fd); dos rest <- go r false;
                       SOk ((if first then [] else [44%N]) ++ q1 Qraw (f_name fd) ++ [58%N] ++ x ++ rest)
              end
          end
      end.

  Lemma std_enc_struct : forall f sz ph fs vs addr q,
    std_enc e Qraw nn (S f) (TStruct sz ph fs) (VStruct vs) addr q =
    sbind (enc_fields f (TStruct sz ph fs) (VStruct vs) addr fs true) (fun items => SOk ([123%N] ++ items ++ [125%N])).
  Proof. intros. destruct addr; reflexivity. Qed.


  (* ---- field options: `,string` on scalars, omitempty tests *)
  Definition code_okq (t : ty) (c : list instr) (pc : nat) (q : bool) : Prop :=
    forall flg prog r rest o k rqs v fuel addr res,
      flag_nn flg ->
      code_at prog pc c -> loc e (rp r) t v -> has_type t v ->
      std_enc e Qraw nn fuel t v addr q = SOk res ->
      (N.of_nat (length k + need v) <= p_stack P)%N ->
      exists n o' rqs', steps n (mks prog pc flg r rest o k rqs) (mks prog (pc + length c) flg r rest o' k rqs') /\
                        out_bytes o' = out_bytes o ++ res.

  Lemma code_okq_false : forall t c pc, code_ok t c pc -> code_okq t c pc false.
  Proof. intros t c pc H. exact H. Qed.

  Lemma kind_eq_dec : forall a b : kind, {a = b} + {a <> b}.
  Proof. decide equality. Qed.

  Lemma std_enc_scalar_q : forall k f v addr, scalar_kind k = true -> k <> KString -> has_type (TPrim k) v ->
    std_enc e Qraw nn f (TPrim k) v addr true =
    sbind (std_enc e Qraw nn f (TPrim k) v addr false) (fun x => SOk ([34%N] ++ x ++ [34%N])).
  Proof.
    intros k f v addr Hk Hs Hv. destruct f as [|f]; [reflexivity|].
    inversion Hv as [b0 | k0 z Hr | k0 bits txt Hk0 Hfok | s0 | | | | |  | ]; subst.
    - destruct addr, b0; reflexivity.
    - unfold int_range_ok in Hr. destruct k; cbn in Hr; try contradiction; destruct addr; reflexivity.
    - destruct Hk0 as [-> | ->]; destruct addr, txt; reflexivity.
    - contradiction Hs; reflexivity.
  Qed.

  Lemma quoted_ok : forall k cf tab cpv sp pc c, scalar_kind k = true -> tab_above tab (TPrim k) ->
    compileStructFieldStr e (compileOne e co cf) tab cpv sp pc (TPrim k) = COk c -> code_okq (TPrim k) c pc true.
  Proof.
    intros k cf tab cpv sp pc c Hk Htab Hc. unfold compileStructFieldStr in Hc.
    rewrite (frag_no_marshaler e e (TPrim k) pc cpv Hk) in Hc.
    change (is_ptr e (TPrim k)) with false in Hc. cbv iota in Hc.
    assert (Hsa : stringable e (TPrim k) = true) by (destruct k; try discriminate Hk; reflexivity).
    rewrite Hsa in Hc. cbn [negb] in Hc. cbv iota in Hc. unfold cbind in Hc.
    destruct (kind_eq_dec k KString) as [->|Hns].
    - (* a string: OP_quote *)
      cbn in Hc. injection Hc as <-.
      intros flg prog r rest o kk rqs v fuel addr res Hflg Hcode Hloc Hty Hstd Hstk.
      assert (Hleaf : leaf e (rp r) = Some (TPrim KString, strip v)) by (apply (loc_leaf e _ _ _ Hloc); [reflexivity|cbn; lia]).
      inversion Hty as [ | k0 z Hr | k0 bits txt Hk0 Hfok | s0 | | | | |  | ]; subst; [unfold int_range_ok in Hr; cbn in Hr; contradiction|destruct Hk0; discriminate|].
      cbn [strip] in Hleaf. destruct fuel as [|fuel]; [discriminate Hstd|]. destruct addr; cbn in Hstd; injection Hstd as <-;
        (cbn [length]; rewrite Nat.add_1_r; eexists 1, _, rqs; split; [apply steps_one; rewrite (step_quote P e co prog flg rest rqs pc r o kk _ _ (code_hd _ _ _ _ Hcode) Hleaf); reflexivity
                                   |rewrite out_cons, Hq; reflexivity]).
    - assert (Hnk : (negb (is_number e (TPrim k)) && is_kind e (TPrim k) KString) = false) by (destruct k; try reflexivity; contradiction Hns; reflexivity).
      rewrite Hnk in Hc. unfold compileStructFieldQuoted, cbind, one in Hc.
      destruct (compileOne e co cf tab cpv sp (pc + 0 + 1) (TPrim k) cpv) as [c1|] eqn:Ec1; [|discriminate Hc]. injection Hc as <-.
      pose proof (scalar_ok k cf tab cpv sp (pc + 0 + 1) cpv c1 Hk Htab Ec1) as Hc1.
      intros flg prog r rest o kk rqs v fuel addr res Hflg Hcode Hloc Hty Hstd Hstk.
      rewrite (std_enc_scalar_q k fuel v addr Hk Hns Hty) in Hstd. unfold sbind in Hstd.
      destruct (std_enc e Qraw nn fuel (TPrim k) v addr false) as [x|] eqn:Ex; [|discriminate Hstd]. injection Hstd as <-.
      assert (I0 : nth_error prog pc = Some (OP_byte 34)) by (eapply code_hd; exact Hcode).
      pose proof (code_at_app_r prog pc [OP_byte 34] (c1 ++ [OP_byte 34]) Hcode) as H1. cbn [length] in H1.
      pose proof (code_at_app_l _ _ _ _ H1) as C1. pose proof (code_at_app_r _ _ _ _ H1) as H2.
      assert (I1 : nth_error prog (pc + 1 + length c1) = Some (OP_byte 34)) by (eapply code_hd; exact H2).
      replace (pc + 0 + 1) with (pc + 1) in Hc1 by lia.
      destruct (Hc1 flg prog r rest ([34%N] :: o) kk rqs v fuel addr x Hflg C1 Hloc Hty Ex Hstk) as (n & o1 & rq1 & Hst & Ho).
      exists (1 + n + 1), ([34%N] :: o1), rq1. split.
      + eapply steps_S; [apply step_byte; exact I0|]. replace (S pc) with (pc + 1) by lia.
        eapply steps_trans; [exact Hst|]. apply steps_one. rewrite (step_byte P e co prog flg rest rq1 _ r o1 kk 34%N I1). f_equal. f_equal.
        cbn [length app]. rewrite app_length. cbn [length]. lia.
      + rewrite out_cons, Ho, out_cons. rewrite <- !app_assoc. reflexivity.
  Qed.

  Definition omit_op (t : ty) (L : nat) : instr :=
    match t with
    | TPrim (KBool | KInt8 | KUint8) => OP_is_zero_1 L
    | TPrim (KInt16 | KUint16) => OP_is_zero_2 L
    | TPrim (KInt32 | KUint32) => OP_is_zero_4 L
    | TPrim (KInt | KInt64 | KUint | KUint64) => OP_is_zero_8 L
    | TPrim KString | TSlice _ => OP_is_nil_p1 L
    | _ => OP_is_nil L
    end.

  Lemma omit_code : forall t L, omittable t = true -> compileStructFieldEmpty e t L = COk [omit_op t L].
  Proof. intros t L H. destruct t as [k| | | | | | |]; try discriminate H; [destruct k; try discriminate H|..]; reflexivity. Qed.

  Lemma pattern_zero : forall k w sg z, int_bits k = Some (w, sg) -> (0 < w)%N -> int_range_ok k z -> (pattern w z =? 0)%Z = (z =? 0)%Z.
  Proof.
    intros k w sg z Hb Hw Hr. unfold int_range_ok in Hr. rewrite Hb in Hr. unfold pattern.
    assert (Hh : (2 ^ Z.of_N w = 2 * 2 ^ (Z.of_N w - 1))%Z) by (rewrite <- Z.pow_succ_r by lia; f_equal; lia).
    assert (Hp : (0 < 2 ^ (Z.of_N w - 1))%Z) by (apply Z.pow_pos_nonneg; lia).
    destruct sg.
    - destruct (Z_lt_ge_dec z 0) as [Hn|Hn].
      + assert (Hm : (z mod 2 ^ Z.of_N w = z + 2 ^ Z.of_N w)%Z) by (symmetry; apply Z.mod_unique with (q := (-1)%Z); lia).
        rewrite Hm. assert ((z + 2 ^ Z.of_N w =? 0)%Z = false) as -> by (apply Z.eqb_neq; lia). symmetry. apply Z.eqb_neq. lia.
      + rewrite Z.mod_small by lia. reflexivity.
    - rewrite Z.mod_small by lia. reflexivity.
  Qed.

  Lemma omit_step : forall t x prog pc flg r rest o k rqs L, omittable t = true -> (0 < sizeof e t)%N ->
    nth_error prog pc = Some (omit_op t L) -> loc e (rp r) t x -> has_type t x ->
    step P e co (mks prog pc flg r rest o k rqs) =
    Running (mks prog (if is_empty_value e t x then L else S pc) flg r rest o k rqs).
  Proof.
    intros t x prog pc flg r rest o k rqs L Ho Hsz Hins Hloc Hty.
    assert (Hleaf : leaf e (rp r) = Some (t, strip x)).
    { apply (loc_leaf e _ _ _ Hloc); [|exact Hsz]. destruct t; try discriminate Ho; reflexivity. }
    inversion Hty as [b0 | k0 z Hr | k0 bits txt Hk0 Hfok | s0 | el | el y Hy | el | el l Hl | | ]; subst; cbn [strip] in Hleaf; try discriminate Ho.
    - (* bool *)
      rewrite (step_is_zero_n P e co prog flg rest rqs 1 pc r o k L (TPrim KBool) (VBool b0) (negb b0) Hins (or_introl eq_refl) Hleaf eq_refl).
      destruct b0; reflexivity.
    - (* integers *)
      assert (He : is_empty_value e (TPrim k0) (VInt z) = (z =? 0)%Z) by reflexivity. rewrite He.
      assert (Hz : forall n w sg, int_bits k0 = Some (w, sg) -> (0 < w)%N -> (8 * n = w)%N -> low_zero n (VInt z) = Some (z =? 0)%Z).
      { intros n w sg Hb Hw Hn. cbn [low_zero]. rewrite Hn. f_equal. eapply pattern_zero; eassumption. }
      destruct k0; try discriminate Ho; try (unfold int_range_ok in Hr; cbn in Hr; contradiction);
        first [ rewrite (step_is_nil P e co prog flg rest rqs pc r o k L _ _ (z =? 0)%Z Hins Hleaf eq_refl); reflexivity
              | rewrite (step_is_zero_n P e co prog flg rest rqs 1 pc r o k L _ _ _ Hins ltac:(tauto) Hleaf (Hz 1%N _ _ eq_refl eq_refl eq_refl)); reflexivity
              | rewrite (step_is_zero_n P e co prog flg rest rqs 2 pc r o k L _ _ _ Hins ltac:(tauto) Hleaf (Hz 2%N _ _ eq_refl eq_refl eq_refl)); reflexivity
              | rewrite (step_is_zero_n P e co prog flg rest rqs 4 pc r o k L _ _ _ Hins ltac:(tauto) Hleaf (Hz 4%N _ _ eq_refl eq_refl eq_refl)); reflexivity
              | rewrite (step_is_zero_n P e co prog flg rest rqs 8 pc r o k L _ _ _ Hins ltac:(tauto) Hleaf (Hz 8%N _ _ eq_refl eq_refl eq_refl)); reflexivity ].
    - destruct Hk0 as [-> | ->]; discriminate Ho.
    - (* string *)
      rewrite (step_is_nil_p1 P e co prog flg rest rqs pc r o k L _ _ (match s0 with [] => true | _ => false end) Hins Hleaf eq_refl).
      destruct s0; reflexivity.
    - (* nil pointer *)
      rewrite (step_is_nil P e co prog flg rest rqs pc r o k L _ _ true Hins Hleaf eq_refl). reflexivity.
    - rewrite (step_is_nil P e co prog flg rest rqs pc r o k L _ _ false Hins Hleaf eq_refl). reflexivity.
    - (* slices *)
      rewrite (step_is_nil_p1 P e co prog flg rest rqs pc r o k L _ _ true Hins Hleaf eq_refl). reflexivity.
    - rewrite (step_is_nil_p1 P e co prog flg rest rqs pc r o k L _ _ (match l with [] => true | _ => false end) Hins Hleaf eq_refl).
      destruct l; reflexivity.
  Qed.

  Section Struct.
    Variables (sz : N) (ph : list (N * ty)) (fsall : list field).
    Notation ST := (TStruct sz ph fsall).
    Hypothesis Hlay : layout_ok e 0 ph sz.
    Hypothesis IHph : forall o t, In (o, t) ph -> forall cf tab cpv sp pc pv c, tab_above tab t ->
      compileOne e co cf tab cpv sp pc t pv = COk c -> code_ok t c pc.

    (* registers while the fields of a struct are emitted: everything from the saved state, only the comma flag varies *)
    Definition rc (r0 : regs) (c : bool) : regs :=
      {| rx := rx r0; rcond := c; rinit := rinit r0; rp := rp r0; rq := rq r0 |}.

    Lemma enc_fields_cons : forall f vs addr fd r first o k x,
      f_path fd = [(o, false)] -> F_omitzero fd = false ->
      nth_error ph k = Some (o, f_type fd) -> nth_error vs k = Some x ->
      enc_fields f ST (VStruct vs) addr (fd :: r) first =
      if F_omitempty fd && is_empty_value e (f_type fd) x then enc_fields f ST (VStruct vs) addr r first
      else
      sbind (std_enc e Qraw nn f (f_type fd) x addr (F_stringize fd)) (fun a =>
        sbind (enc_fields f ST (VStruct vs) addr r false) (fun rest =>
          SOk ((if first then [] else [44%N]) ++ quote (f_name fd) false ++ [58%N] ++ a ++ rest))).
    Proof.
      intros f vs addr fd r first o k x Hp Ho Hk Hx.
      change (enc_fields f ST (VStruct vs) addr (fd :: r) first) with
        (match nav e (PAt ST (VStruct vs) 0) (f_path fd) addr with
         | None => SErr S_illtyped
         | Some None => enc_fields f ST (VStruct vs) addr r first
         | Some (Some (p, a)) =>
             match typed e (f_type fd) p with
             | None => SErr S_illtyped
             | Some fv =>
                 if (F_omitempty fd && is_empty_value e (f_type fd) fv) || (F_omitzero fd && is_zero_val e (f_type fd) fv)
                 then enc_fields f ST (VStruct vs) addr r first
                 else dos x <- std_enc e Qraw nn f (f_type fd) fv a (F_stringize fd); dos rest <- enc_fields f ST (VStruct vs) addr r false;
                      SOk ((if first then [] else [44%N]) ++ q1 Qraw (f_name fd) ++ [58%N] ++ x ++ rest)
             end
         end).
      rewrite Hp. cbn [nav padd]. change (0 + o)%N with o. rewrite (typed_field e sz ph fsall vs k o (f_type fd) x Hlay Hk Hx).
      rewrite Ho. cbn [andb]. rewrite orb_false_r. reflexivity.
    Qed.

    (* from the comma test on: ", name : value" and back to the struct *)
    Lemma emit_part : forall ft v q pc0 tx, code_okq ft v (pc0 + 3) q ->
      forall flg prog r0 rest o kk rqs c fo x fuel addr a,
        flag_nn flg ->
        code_at prog pc0 ([OP_cond_testc (pc0 + 2); OP_byte 44; OP_text tx] ++ v ++ [OP_load]) ->
        loc e (padd (rp r0) fo) ft x -> has_type ft x ->
        std_enc e Qraw nn fuel ft x addr q = SOk a ->
        (N.of_nat (S (length kk) + need x) <= p_stack P)%N ->
        exists n o' rqs',
          steps n (mks prog pc0 flg (set_p (rc r0 c) (padd (rp r0) fo)) rest o (r0 :: kk) rqs)
                  (mks prog (pc0 + 3 + length v + 1) flg (rc r0 false) rest o' (r0 :: kk) rqs')
          /\ out_bytes o' = out_bytes o ++ (if c then [] else [44%N]) ++ tx ++ a.
    Proof.
      intros ft v q pc0 tx Hcv flg prog r0 rest o kk rqs c fo x fuel addr a Hflg Hcode Hloc Hty Ea Hstk.
      assert (I1 : nth_error prog pc0 = Some (OP_cond_testc (pc0 + 2))) by (eapply code_hd; exact Hcode).
      assert (I2 : nth_error prog (pc0 + 1) = Some (OP_byte 44)) by (eapply code_nth; [exact Hcode|reflexivity]).
      assert (I3 : nth_error prog (pc0 + 2) = Some (OP_text tx)) by (eapply code_nth; [exact Hcode|reflexivity]).
      pose proof (code_at_app_r prog pc0 [OP_cond_testc (pc0 + 2); OP_byte 44; OP_text tx] (v ++ [OP_load]) Hcode) as H1. cbn [length] in H1.
      pose proof (code_at_app_l _ _ _ _ H1) as Ccv. pose proof (code_at_app_r _ _ _ _ H1) as H2.
      assert (I4 : nth_error prog (pc0 + 3 + length v) = Some OP_load) by (eapply code_hd; exact H2).
      set (rfield := {| rx := rx r0; rcond := false; rinit := rinit r0; rp := padd (rp r0) fo; rq := rq r0 |}).
      assert (Hpre : exists m1, steps m1 (mks prog pc0 flg (set_p (rc r0 c) (padd (rp r0) fo)) rest o (r0 :: kk) rqs)
                                 (mks prog (pc0 + 3) flg rfield rest (tx :: (if c then o else [44%N] :: o)) (r0 :: kk) rqs)).
      { destruct c.
        - exists 2. eapply steps_S; [apply step_cond_testc; exact I1|]. cbn [rc set_p rcond rx rinit rp rq].
          eapply steps_S; [apply step_text; exact I3|]. replace (S (pc0 + 2)) with (pc0 + 3) by lia. apply steps_O.
        - exists 3. eapply steps_S; [apply step_cond_testc; exact I1|]. cbn [rc set_p rcond rx rinit rp rq].
          replace (S pc0) with (pc0 + 1) by lia.
          eapply steps_S; [apply step_byte; exact I2|]. replace (S (pc0 + 1)) with (pc0 + 2) by lia.
          eapply steps_S; [apply step_text; exact I3|]. replace (S (pc0 + 2)) with (pc0 + 3) by lia. apply steps_O. }
      destruct Hpre as [m1 Hpre].
      destruct (Hcv flg prog rfield rest (tx :: (if c then o else [44%N] :: o)) (r0 :: kk) rqs x fuel addr a Hflg Ccv)
        as (m2 & o2 & rq2 & Hst2 & Ho2); [exact Hloc|exact Hty|exact Ea|cbn [length]; lia|].
      exists (m1 + m2 + 1), o2, rq2. split.
      + eapply steps_trans; [eapply steps_trans; [exact Hpre|exact Hst2]|].
        apply steps_one. rewrite step_load by exact I4. f_equal. f_equal. lia.
      + rewrite Ho2, out_cons. destruct c; [|rewrite out_cons]; rewrite <- ?app_assoc; reflexivity.
    Qed.

    Lemma fields_exec : forall fs, Forall (field_ok ph) fs ->
      forall cf tab cpv sp pc code, tab_above tab ST ->
      fieldsCode e co (compileOne e co cf) (ST :: tab) cpv sp pc fs = COk code ->
      forall flg prog r0 rest o kk rqs vs c fuel addr items,
        flag_nn flg ->
        code_at prog pc code ->
        loc e (rp r0) ST (VStruct vs) -> length vs = length ph ->
        (forall k o t x, nth_error ph k = Some (o, t) -> nth_error vs k = Some x -> has_type t x) ->
        enc_fields fuel ST (VStruct vs) addr fs c = SOk items ->
        (N.of_nat (S (length kk) + need_list vs) <= p_stack P)%N ->
        exists n o' rqs' c',
          steps n (mks prog pc flg (rc r0 c) rest o (r0 :: kk) rqs)
                  (mks prog (pc + length code) flg (rc r0 c') rest o' (r0 :: kk) rqs')
          /\ out_bytes o' = out_bytes o ++ items.
    Proof.
      induction 1 as [|fd fs Hfd Hfs IH]; intros cf tab cpv sp pc code Htab Hc flg prog r0 rest o kk rqs vs c fuel addr items Hflg Hcode Hloc Hlen Hty Henc Hstk.
      - cbn in Hc. injection Hc as <-. cbn in Henc. injection Henc as <-.
        exists 0, o, rqs, c. split; [cbn [length]; rewrite Nat.add_0_r; apply steps_O|rewrite app_nil_r; reflexivity].
      - destruct Hfd as (fo & Hpath & Hopts & Hin).
        destruct (opts_ok_bits fd Hopts) as (Hoz & Hoe & Hsq).
        destruct (In_nth_error _ _ Hin) as [k Hk].
        assert (Hkx : exists x, nth_error vs k = Some x).
        { destruct (nth_error vs k) eqn:E; [eauto|]. apply nth_error_None in E. assert (k < length ph) by (apply nth_error_Some; congruence). lia. }
        destruct Hkx as [x Hx].
        pose proof (Hty _ _ _ _ Hk Hx) as Htx.
        pose proof (loc_field e _ _ _ _ _ _ _ _ _ Hloc Hlay Hk Hx) as Hlx.
        pose proof (need_list_in vs x (nth_error_In _ _ Hx)) as Hnx.
        rewrite (enc_fields_cons fuel vs addr fd fs c fo k x Hpath Hoz Hk Hx) in Henc.
        (* the code of this field *)
        cbn [fieldsCode] in Hc. unfold cbind in Hc.
        destruct (fieldCode e co (compileOne e co cf) (ST :: tab) cpv sp pc fd) as [cfd|] eqn:Ecfd; [|discriminate Hc].
        destruct (fieldsCode e co (compileOne e co cf) (ST :: tab) cpv sp (pc + length cfd) fs) as [cfs|] eqn:Ecfs; [|discriminate Hc].
        injection Hc as <-.
        unfold fieldCode in Ecfd.
        assert (Harr : (match rkind_of e (f_type fd) with RArray => Nat.eqb (len_of e (f_type fd)) 0 && F_omitempty fd | _ => false end) = false).
        { destruct (F_omitempty fd) eqn:Eo.
          - destruct (Hoe eq_refl) as [Hom _]. destruct (f_type fd) as [kk0| | | | | | |]; try discriminate Hom; reflexivity.
          - destruct (rkind_of e (f_type fd)); try reflexivity. apply andb_false_r. }
        rewrite Harr in Ecfd.
        assert (Hom : forall L, omitCode e co fd L = COk (if F_omitempty fd then [omit_op (f_type fd) L] else [])).
        { intro L. unfold omitCode, cbind. rewrite Hoz, Hnull. destruct (F_omitempty fd) eqn:Eo.
          - destruct (Hoe eq_refl) as [Hom _]. rewrite (omit_code _ L Hom).
            destruct (f_type fd) as [kk0| | | | | | |]; try discriminate Hom; reflexivity.
          - destruct (rkind_of e (f_type fd)); reflexivity. }
        rewrite !Hom in Ecfd. unfold cbind in Ecfd. rewrite Hpath in Ecfd. cbn [pathCode app length] in Ecfd.
        set (no := length (if F_omitempty fd then [omit_op (f_type fd) 0] else [])) in *.
        set (pc0 := pc + 1 + no) in *.
        destruct (if F_stringize fd
                  then compileStructFieldStr e (compileOne e co cf) (ST :: tab) cpv (sp + 1) (pc0 + 3) (f_type fd)
                  else one (compileOne e co cf) (ST :: tab) cpv (sp + 1) (pc0 + 3) (f_type fd) cpv) as [cv|] eqn:Ecv; [|discriminate Ecfd].
        rewrite Hom in Ecfd. injection Ecfd as <-.
        assert (Htab' : tab_above (ST :: tab) (f_type fd)).
        { intros b [<-|Hb].
          - rewrite tsize_struct. pose proof (phys_size_in ph fo (f_type fd) Hin). lia.
          - specialize (Htab b Hb). rewrite tsize_struct in Htab. pose proof (phys_size_in ph fo (f_type fd) Hin). lia. }
        assert (Hcv : code_okq (f_type fd) cv (pc0 + 3) (F_stringize fd)).
        { destruct (F_stringize fd) eqn:Es.
          - destruct (Hsq eq_refl) as [Hqt _]. destruct (f_type fd) as [kq| | | | | | |] eqn:Eft; try discriminate Hqt.
            eapply quoted_ok; [exact Hqt|exact Htab'|exact Ecv].
          - apply code_okq_false. eapply (IHph fo (f_type fd) Hin); [exact Htab'|exact Ecv]. }
        (* layout *)
        set (tx := quote (f_name fd) false ++ [58%N]) in *.
        set (L := pc0 + 3 + length cv) in *.
        match type of Hcode with code_at _ _ (?fc ++ _) => set (fcode := fc) in * end.
        pose proof (code_at_app_l _ _ _ _ Hcode) as Hf.
        pose proof (code_at_app_r _ _ _ _ Hcode) as Hrest.
        assert (I0 : nth_error prog pc = Some (OP_index fo)) by (eapply code_hd; exact Hf).
        assert (Hsz : (0 < sizeof e (f_type fd))%N) by (eapply layout_pos; eassumption).
        destruct (F_omitempty fd) eqn:Eo.
        + (* omitempty *)
          destruct (Hoe eq_refl) as [Hom1 Hst0]. cbn [length] in no. cbn [andb] in Henc.
          assert (Hfl : length fcode = 2 + 3 + length cv + 1) by (unfold fcode; cbn [length app]; rewrite app_length; cbn [length]; lia).
          assert (I1 : nth_error prog (pc + 1) = Some (omit_op (f_type fd) L)) by (eapply code_nth; [exact Hf|reflexivity]).
          assert (Cem : code_at prog pc0 ([OP_cond_testc (pc0 + 2); OP_byte 44; OP_text tx] ++ cv ++ [OP_load])).
          { pose proof (code_at_app_r prog pc [OP_index fo; omit_op (f_type fd) L] _ Hf) as Hx2. cbn [length] in Hx2.
            assert (E : pc + 2 = pc0) by (unfold pc0, no; lia). rewrite E in Hx2. exact Hx2. }
          assert (Hstep1 : step P e co (mks prog (pc + 1) flg (set_p (rc r0 c) (padd (rp r0) fo)) rest o (r0 :: kk) rqs) =
                           Running (mks prog (if is_empty_value e (f_type fd) x then L else S (pc + 1)) flg (set_p (rc r0 c) (padd (rp r0) fo)) rest o (r0 :: kk) rqs)).
          { apply omit_step; try assumption. }
          destruct (is_empty_value e (f_type fd) x) eqn:Eemp.
          * (* omitted *)
            destruct (IH cf tab cpv sp (pc + length fcode) cfs Htab Ecfs flg prog r0 rest o kk rqs vs c fuel addr items Hflg Hrest Hloc Hlen Hty Henc Hstk)
              as (m3 & o3 & rq3 & c3 & Hst3 & Ho3).
            assert (I4 : nth_error prog L = Some OP_load).
            { pose proof (code_at_app_r _ _ _ _ Cem) as Hy. cbn [length] in Hy. pose proof (code_at_app_r _ _ _ _ Hy) as Hy2.
              unfold L. eapply code_hd. exact Hy2. }
            exists (3 + m3), o3, rq3, c3. split; [|exact Ho3].
            eapply steps_S; [apply step_index; exact I0|]. replace (S pc) with (pc + 1) by lia.
            eapply steps_S; [exact Hstep1|].
            eapply steps_S; [apply step_load; exact I4|]. cbn [rc set_p rcond rx rinit rp rq].
            replace (S L) with (pc + length fcode) by (unfold L, pc0, no; lia).
            replace (pc + length (fcode ++ cfs)) with (pc + length fcode + length cfs) by (rewrite app_length; lia).
            exact Hst3.
          * unfold sbind in Henc.
            destruct (std_enc e Qraw nn fuel (f_type fd) x addr (F_stringize fd)) as [a|] eqn:Ea; [|discriminate Henc].
            destruct (enc_fields fuel ST (VStruct vs) addr fs false) as [restb|] eqn:Erest; [|discriminate Henc].
            injection Henc as <-.
            destruct (emit_part _ _ _ _ tx Hcv flg prog r0 rest o kk rqs c fo x fuel addr a Hflg Cem Hlx Htx Ea ltac:(lia)) as (m2 & o2 & rq2 & Hst2 & Ho2).
            destruct (IH cf tab cpv sp (pc + length fcode) cfs Htab Ecfs flg prog r0 rest o2 kk rq2 vs false fuel addr restb Hflg Hrest Hloc Hlen Hty Erest Hstk)
              as (m3 & o3 & rq3 & c3 & Hst3 & Ho3).
            exists (2 + m2 + m3), o3, rq3, c3. split.
            -- eapply steps_S; [apply step_index; exact I0|]. replace (S pc) with (pc + 1) by lia.
               eapply steps_S; [exact Hstep1|]. replace (S (pc + 1)) with pc0 by (unfold pc0, no; lia).
               eapply steps_trans; [exact Hst2|].
               replace (pc0 + 3 + length cv + 1) with (pc + length fcode) by (unfold pc0, no; lia).
               replace (pc + length (fcode ++ cfs)) with (pc + length fcode + length cfs) by (rewrite app_length; lia).
               exact Hst3.
            -- rewrite Ho3, Ho2. unfold tx, quote. cbn [app]. repeat (rewrite <- app_assoc; cbn [app]). reflexivity.
        + (* no omitempty *)
          cbn [length] in no. cbn [andb] in Henc. unfold sbind in Henc.
          destruct (std_enc e Qraw nn fuel (f_type fd) x addr (F_stringize fd)) as [a|] eqn:Ea; [|discriminate Henc].
          destruct (enc_fields fuel ST (VStruct vs) addr fs false) as [restb|] eqn:Erest; [|discriminate Henc].
          injection Henc as <-.
          assert (Hfl : length fcode = 1 + 3 + length cv + 1) by (unfold fcode; cbn [length app]; rewrite app_length; cbn [length]; lia).
          assert (Cem : code_at prog pc0 ([OP_cond_testc (pc0 + 2); OP_byte 44; OP_text tx] ++ cv ++ [OP_load])).
          { pose proof (code_at_app_r prog pc [OP_index fo] _ Hf) as Hx2. cbn [length] in Hx2.
            assert (E : pc + 1 = pc0) by (unfold pc0, no; lia). rewrite E in Hx2. exact Hx2. }
          destruct (emit_part _ _ _ _ tx Hcv flg prog r0 rest o kk rqs c fo x fuel addr a Hflg Cem Hlx Htx Ea ltac:(lia)) as (m2 & o2 & rq2 & Hst2 & Ho2).
          destruct (IH cf tab cpv sp (pc + length fcode) cfs Htab Ecfs flg prog r0 rest o2 kk rq2 vs false fuel addr restb Hflg Hrest Hloc Hlen Hty Erest Hstk)
            as (m3 & o3 & rq3 & c3 & Hst3 & Ho3).
          exists (1 + m2 + m3), o3, rq3, c3. split.
          * eapply steps_S; [apply step_index; exact I0|]. replace (S pc) with pc0 by (unfold pc0, no; lia).
            eapply steps_trans; [exact Hst2|].
            replace (pc0 + 3 + length cv + 1) with (pc + length fcode) by (unfold pc0, no; lia).
            replace (pc + length (fcode ++ cfs)) with (pc + length fcode + length cfs) by (rewrite app_length; lia).
            exact Hst3.
          * rewrite Ho3, Ho2. unfold tx, quote. cbn [app]. repeat (rewrite <- app_assoc; cbn [app]). reflexivity.
    Qed.

    Hypothesis Hfields : Forall (field_ok ph) fsall.

    Lemma struct_body_ok : forall cf tab cpv sp pc code, tab_above tab ST ->
      compileStructBody e co (compileOne e co cf) (ST :: tab) cpv sp pc ST = COk code -> code_ok ST code pc.
    Proof.
      intros cf tab cpv sp pc code Htab Hc.
      unfold compileStructBody, Tag, cbind in Hc. cbn [fields_of unfold] in Hc.
      destruct (N.of_nat sp <? MaxStack)%N; [|discriminate Hc].
      destruct (fieldsCode e co (compileOne e co cf) (ST :: tab) cpv sp (pc + 3) fsall) as [cf0|] eqn:Ecf; [|discriminate Hc].
      injection Hc as <-.
      intros flg prog r rest o kk rqs v fuel addr res Hflg Hcode Hloc Hty Hstd Hstk.
      inversion Hty as [ | | | | | | | | | sz0 ph0 fs0 vs Hlen Hall ]; subst.
      destruct fuel as [|fuel]; [discriminate Hstd|]. rewrite std_enc_struct in Hstd. unfold sbind in Hstd.
      destruct (enc_fields fuel ST (VStruct vs) addr fsall true) as [items|] eqn:Eit; [|discriminate Hstd]. injection Hstd as <-.
      assert (Hsave : (N.of_nat (length kk) < p_stack P)%N) by (cbn [need] in Hstk; lia).
      assert (I0 : nth_error prog pc = Some (OP_byte 123)) by (eapply code_hd; exact Hcode).
      assert (I1 : nth_error prog (pc + 1) = Some OP_save) by (eapply code_nth; [exact Hcode|reflexivity]).
      assert (I2 : nth_error prog (pc + 2) = Some OP_cond_set) by (eapply code_nth; [exact Hcode|reflexivity]).
      pose proof (code_at_app_r prog pc [OP_byte 123; OP_save; OP_cond_set] (cf0 ++ [OP_drop; OP_byte 125]) Hcode) as H1. cbn [length] in H1.
      pose proof (code_at_app_l _ _ _ _ H1) as Cf.
      pose proof (code_at_app_r _ _ _ _ H1) as H2.
      assert (I3 : nth_error prog (pc + 3 + length cf0) = Some OP_drop) by (eapply code_hd; exact H2).
      assert (I4 : nth_error prog (pc + 3 + length cf0 + 1) = Some (OP_byte 125)) by (eapply code_nth; [exact H2|reflexivity]).
      destruct (fields_exec fsall Hfields cf tab cpv sp (pc + 3) cf0 Htab Ecf flg prog r rest ([123%N] :: o) kk rqs vs true fuel addr items Hflg Cf Hloc Hlen Hall Eit)
        as (n & o1 & rq1 & c1 & Hst & Ho).
      { cbn [need] in Hstk. unfold need_list. lia. }
      match goal with |- context [pc + length ?cc] =>
        replace (pc + length cc) with (pc + 3 + length cf0 + 2) by (cbn [length]; rewrite app_length; cbn [length]; lia) end.
      exists (3 + n + 2), ([125%N] :: o1), rq1. split.
      + eapply steps_S; [apply step_byte; exact I0|]. replace (S pc) with (pc + 1) by lia.
        eapply steps_S; [apply step_save; [exact I1|exact Hsave]|]. replace (S (pc + 1)) with (pc + 2) by lia.
        eapply steps_S; [apply step_cond_set; exact I2|]. replace (S (pc + 2)) with (pc + 3) by lia.
        eapply steps_trans; [exact Hst|].
        eapply steps_S; [apply step_drop; exact I3|]. replace (S (pc + 3 + length cf0)) with (pc + 3 + length cf0 + 1) by lia.
        eapply steps_S; [apply step_byte; exact I4|]. replace (S (pc + 3 + length cf0 + 1)) with (pc + 3 + length cf0 + 2) by lia.
        apply steps_O.
      + rewrite out_cons, Ho, out_cons. rewrite <- !app_assoc. reflexivity.
    Qed.

    Hypothesis Hinline : 0 < MaxInlineDepth co.
    Hypothesis Hcomp : forall pv, exists prog, compile e co ST pv = COk prog.
    Hypothesis Hfrag : frag e ST.

    Lemma struct_ok : forall cf tab cpv sp pc pv c, tab_above tab ST ->
      compileOne e co cf tab cpv sp pc ST pv = COk c -> code_ok ST c pc.
    Proof.
      intros cf tab cpv sp pc pv c Htab Hc.
      destruct cf as [|cf]; [discriminate Hc|]. cbn [compileOne] in Hc.
      rewrite (mem_ty_false _ _ Htab) in Hc.
      rewrite (frag_no_marshaler e e ST pc pv Hfrag) in Hc.
      unfold compileOps in Hc. cbn [rkind_of unfold] in Hc. unfold compileStruct in Hc.
      match type of Hc with (if ?b then _ else _) = _ => destruct b end.
      2: { eapply struct_body_ok; eassumption. }
      injection Hc as <-.
      intros flg prog r rest o kk rqs v fuel addr res Hflg Hcode Hloc Hty Hstd Hstk.
      set (fv := if pv then set_bit flg (b_recurse P) else clear_bit flg (b_recurse P)).
      destruct (Hcomp (has_opts fv BitPointerValue)) as [prog' Hp'].
      assert (Hflg' : flag_nn fv).
      { unfold flag_nn, fv. destruct pv; [rewrite has_opts_set_other by exact Hbr|rewrite has_opts_clear_other by exact Hbr]; exact Hflg. }
      (* the nested program is the inlined body *)
      assert (Hok' : code_ok ST prog' 0).
      { unfold compile in Hp'. change compile_fuel with (S 399) in Hp'. rewrite compileOne_S in Hp'.
        change (mem_ty ST []) with false in Hp'. cbv iota in Hp'.
        rewrite (frag_no_marshaler e e ST 0 _ Hfrag) in Hp'.
        unfold compileOps in Hp'. cbn [rkind_of unfold] in Hp'. unfold compileStruct in Hp'.
        assert ((MaxInlineDepth co <=? 0) = false) as Hm by (apply Nat.leb_gt; exact Hinline).
        rewrite Hm in Hp'. cbn [orb andb Nat.ltb Nat.leb N.of_nat N.leb N.compare MAX_ILBUF] in Hp'.
        eapply (struct_body_ok _ []); [intros a []|exact Hp']. }
      destruct (Hok' fv prog' (regs0 (rp r)) (mkf prog (S pc) flg r :: rest) o kk ((ST, has_opts fv BitPointerValue) :: rqs) v fuel addr res
                  Hflg' (code_at_self prog') Hloc Hty Hstd Hstk) as (n & o' & rq' & Hst & Ho).
      assert (I0 : nth_error prog pc = Some (OP_recurse ST pv)) by (eapply code_hd; exact Hcode).
      exists (1 + n + 1), o', rq'. split; [|exact Ho].
      eapply steps_S.
      { eapply step_recurse; [exact I0|]. unfold fv in Hp'. exact Hp'. }
      fold fv.
      eapply steps_trans; [exact Hst|].
      apply steps_one. cbn [length]. rewrite Nat.add_1_r.
      unfold mks at 1. rewrite step_return by (apply nth_error_None; lia). reflexivity.
    Qed.
  End Struct.

  (* every struct type inside t compiles at top level (what OP_recurse asks of the program cache) *)
  Fixpoint compilable (t : ty) : Prop :=
    match t with
    | TPtr el | TSlice el | TArray _ el => compilable el
    | TStruct sz ph fs =>
        (forall pv, exists prog, compile e co (TStruct sz ph fs) pv = COk prog) /\
        (fix all (l : list (N * ty)) : Prop := match l with [] => True | (_, t) :: r => compilable t /\ all r end) ph
    | _ => True
    end.

  Lemma compilable_in : forall ph o t,
    (fix all (l : list (N * ty)) : Prop := match l with [] => True | (_, t) :: r => compilable t /\ all r end) ph ->
    In (o, t) ph -> compilable t.
  Proof.
    induction ph as [|[o' t'] r IH]; intros o t H Hin; [destruct Hin|].
    destruct H as [Ht Hr]. destruct Hin as [Hin|Hin]; [inversion Hin; subst; exact Ht|]. eapply IH; eassumption.
  Qed.

  Hypothesis Hinline : 0 < MaxInlineDepth co.

  (* ---- all types of the fragment *)
  Theorem code_ok_frag : forall t, frag e t -> compilable t -> forall cf tab cpv sp pc pv c, tab_above tab t ->
    compileOne e co cf tab cpv sp pc t pv = COk c -> code_ok t c pc.
  Proof.
    induction t using ty_ind'; intros Hf Hcp cf tab cpv sp pc pv c Htab Hc; cbn [frag] in Hf; try contradiction.
    - eapply scalar_ok; eassumption.
    - eapply array_ok; try eassumption. intros. eapply IHt; eassumption.
    - eapply slice_ok; try eassumption. intros. eapply IHt; eassumption.
    - eapply ptr_ok; try eassumption. intros. eapply IHt; eassumption.
    - destruct Hf as (Hall & Hlay & Hfs). destruct Hcp as (Hcomp & Hcall).
      eapply (struct_ok s ph fs Hlay); try eassumption.
      + intros o t Hin. rewrite Forall_forall in H. specialize (H (o, t) Hin). cbn in H.
        intros. eapply H; try eassumption.
        * eapply frag_all_in; eassumption.
        * eapply compilable_in; eassumption.
      + cbn [frag]. repeat split; assumption.
  Qed.

  (* Marshal of a value of the fragment: the machine stops with exactly the bytes of the reference encoder *)
  Theorem exec_frag : forall flg t v fuel res prog,
    flag_nn flg ->
    frag e t -> compilable t -> has_type t v ->
    compile e co t (has_opts flg BitPointerValue) = COk prog ->
    std_marshal e Qraw nn fuel (Some (t, v)) = SOk res ->
    (N.of_nat (need v) <= p_stack P)%N ->
    exists s0 k, call e co state0 t (PAt t v 0) flg = Running s0 /\
                 forall n, k < 2 ^ n -> run P e co n s0 = Done res.
  Proof.
    intros flg t v fuel res prog Hflg Ht Hcp Hv Hc Hstd Hstk.
    assert (Hok : code_ok t prog 0).
    { unfold compile in Hc. eapply code_ok_frag; [exact Ht|exact Hcp| |exact Hc]. intros a []. }
    destruct (Hok flg prog (regs0 (PAt t v 0)) [] [] [] [(t, has_opts flg BitPointerValue)] v fuel false res
                Hflg (code_at_self prog) (loc_root e t v) Hv Hstd ltac:(cbn [length]; lia)) as (k & o' & rq' & Hst & Ho).
    unfold call. rewrite Hc. eexists _, k. split; [reflexivity|].
    intros n Hn. eapply run_complete2; [exact Hst| |discriminate|exact Hn].
    unfold VM.step, mks, mkf. cbn [frames fprog fpc].
    assert (nth_error prog (0 + length prog) = None) as -> by (apply nth_error_None; lia).
    cbn [out]. rewrite Ho. reflexivity.
  Qed.
End Main.

(* ---- the two executors of this tree satisfy the hypotheses, under the std-compatible option word *)
From SV.Enc Require Import Exec IntBridge.

Definition std_flags : N := 39.   (* SortMapKeys | EscapeHTML | CompactMarshaler | ValidateString *)

Lemma jit_i64 : forall z, (- 2 ^ 63 <= z < 2 ^ 63)%Z -> p_i64toa prims_jit z = itoa z.
Proof. intros z H. apply i64toa_is_itoa. exact H. Qed.
Lemma jit_u64 : forall z, (0 <= z < 2 ^ 64)%Z -> p_u64toa prims_jit z = utoa (Z.to_N z).
Proof. intros z H. apply u64toa_is_utoa. exact H. Qed.

(* result of Marshal, as an outcome, from the reference bytes *)
Definition agree (o : outcome) (res : bytes) : Prop := o = Done (encode_finish std_flags res) \/ o = OutOfFuel.

Section Agree.
  Variable P : prims.
  Variable e : env.
  Variable co : copts.
  Hypothesis Hi : forall z, (- 2 ^ 63 <= z < 2 ^ 63)%Z -> p_i64toa P z = itoa z.
  Hypothesis Hu : forall z, (0 <= z < 2 ^ 64)%Z -> p_u64toa P z = utoa (Z.to_N z).
  Hypothesis Hq : forall s d, p_quote P s d = quote s d.
  Hypothesis Hbr : b_recurse P <> b_empty_arr P.
  Hypothesis Hnull : EncOnlyOmitNull co = false.
  Hypothesis Hflg : has_opts std_flags (b_empty_arr P) = false.
  Hypothesis Hinline : 0 < MaxInlineDepth co.

  Theorem marshal_agree_frag : forall t v fuel res prog,
    frag e t -> compilable e co t -> has_type (fok P) t v ->
    compile e co t false = COk prog ->
    std_marshal e Qraw false fuel (Some (t, v)) = SOk res ->
    (N.of_nat (need v) <= p_stack P)%N ->
    agree (encode P e co std_flags (Some (t, v))) res.
  Proof.
    intros t v fuel res prog Ht Hcp Hv Hc Hstd Hstk.
    destruct (exec_frag P e co false Hi Hu Hq Hbr Hnull Hinline std_flags t v fuel res prog Hflg Ht Hcp Hv Hc Hstd Hstk) as (s0 & k & Hcall & Hrun).
    unfold agree, encode, exec_top. rewrite Hcall.
    assert (Hk : k < 2 ^ (40 + k)) by (pose proof (pow2_gt (40 + k)); lia).
    pose proof (Hrun (40 + k) Hk) as H1.
    destruct (run P e co 40 s0) as [s'| b | x | c | ] eqn:E; cbn [finish_run].
    - right. reflexivity.
    - pose proof (run_mono P e co 40 s0 _ E ltac:(discriminate) (40 + k) ltac:(lia)) as H2.
      rewrite H1 in H2. injection H2 as <-. left. reflexivity.
    - pose proof (run_mono P e co 40 s0 _ E ltac:(discriminate) (40 + k) ltac:(lia)) as H2. rewrite H1 in H2. discriminate H2.
    - pose proof (run_mono P e co 40 s0 _ E ltac:(discriminate) (40 + k) ltac:(lia)) as H2. rewrite H1 in H2. discriminate H2.
    - pose proof (run_mono P e co 40 s0 _ E ltac:(discriminate) (40 + k) ltac:(lia)) as H2. rewrite H1 in H2. discriminate H2.
  Qed.
End Agree.

Theorem marshal_agree_jit : forall e co t v fuel res prog,
  0 < MaxInlineDepth co -> EncOnlyOmitNull co = false ->
  frag e t -> compilable e co t -> has_type (fok prims_jit) t v -> compile e co t false = COk prog ->
  std_marshal e Qraw false fuel (Some (t, v)) = SOk res -> (need v <= 4096)%nat ->
  agree (encode prims_jit e co std_flags (Some (t, v))) res.
Proof.
  intros e co t v fuel res prog Hin Hnu Ht Hcp Hv Hc Hs Hn.
  eapply (marshal_agree_frag prims_jit e co jit_i64 jit_u64); try eassumption; try reflexivity; try discriminate.
  change (p_stack prims_jit) with 4096%N. lia.
Qed.

Theorem marshal_agree_vm : forall e co t v fuel res prog,
  0 < MaxInlineDepth co -> EncOnlyOmitNull co = false ->
  frag e t -> compilable e co t -> has_type (fok prims_vm) t v -> compile e co t false = COk prog ->
  std_marshal e Qraw false fuel (Some (t, v)) = SOk res -> (need v <= 4096)%nat ->
  agree (encode prims_vm e co std_flags (Some (t, v))) res.
Proof.
  intros e co t v fuel res prog Hin Hnu Ht Hcp Hv Hc Hs Hn.
  eapply (marshal_agree_frag prims_vm e co); try eassumption; try reflexivity; try discriminate.
  change (p_stack prims_vm) with 4096%N. lia.
Qed.

(* non-vacuity: a slice of pointers to structs holding an array and a string *)
Definition ex_struct : ty :=
  TStruct 24 [(0%N, TArray 2 (TPrim KInt16)); (8%N, TPrim KString)]
    [Field [97%N] 0 (TArray 2 (TPrim KInt16)) [(0%N, false)]; Field [98%N] 0 (TPrim KString) [(8%N, false)]].
Definition ex_ty : ty := TSlice (TPtr ex_struct).
Definition ex_val : val := VSlice (Some [VPtr (Some (VStruct [VArr [VInt 7; VInt (-3)]; VStr [120%N; 34%N]])); VPtr None]).
Definition ex_out : bytes :=
  [91; 123; 34; 97; 34; 58; 91; 55; 44; 45; 51; 93; 44; 34; 98; 34; 58; 34; 120; 92; 34; 34; 125; 44; 110; 117; 108; 108; 93]%N.

Example frag_example :
  frag [] ex_ty /\ compilable [] default_copts ex_ty /\ has_type (fok prims_jit) ex_ty ex_val /\
  std_marshal [] Qraw false 10 (Some (ex_ty, ex_val)) = SOk ex_out /\
  encode prims_jit [] default_copts std_flags (Some (ex_ty, ex_val)) = Done ex_out.
Proof.
  split; [|split; [|split; [|split]]].
  - cbn. repeat split; try lia; repeat constructor; eexists; repeat split; try (left; reflexivity); cbn; auto.
  - cbn. split; [|repeat split]. intro pv. destruct pv; eexists; vm_compute; reflexivity.
  - apply HT_slice. intros x [<-|[<-|[]]].
    + apply HT_ptr. apply HT_struct; [reflexivity|].
      intros k o t x Hk Hx. destruct k as [|[|k]]; cbn in Hk, Hx.
      * injection Hk as <- <-. injection Hx as <-. apply HT_arr; [reflexivity|]. intros y [<-|[<-|[]]]; apply HT_int; cbn; lia.
      * injection Hk as <- <-. injection Hx as <-. apply HT_str.
      * destruct k; discriminate Hk.
    + apply HT_ptr_nil.
  - vm_compute. reflexivity.
  - vm_compute. reflexivity.
Qed.

(* non-vacuity of the field options: `,string` on an int64, omitempty on a false bool and on a non-empty string *)
Definition ex2_ty : ty :=
  TStruct 32 [(0%N, TPrim KInt64); (8%N, TPrim KBool); (16%N, TPrim KString)]
    [Field [110%N] 2 (TPrim KInt64) [(0%N, false)]; Field [98%N] 1 (TPrim KBool) [(8%N, false)]; Field [115%N] 1 (TPrim KString) [(16%N, false)]].
Definition ex2_val : val := VStruct [VInt 5; VBool false; VStr [120%N]].
Definition ex2_out : bytes := [123; 34; 110; 34; 58; 34; 53; 34; 44; 34; 115; 34; 58; 34; 120; 34; 125]%N.

Example frag_example_opts :
  frag [] ex2_ty /\ compilable [] default_copts ex2_ty /\ has_type (fok prims_jit) ex2_ty ex2_val /\
  std_marshal [] Qraw false 10 (Some (ex2_ty, ex2_val)) = SOk ex2_out /\
  encode prims_jit [] default_copts std_flags (Some (ex2_ty, ex2_val)) = Done ex2_out.
Proof.
  split; [|split; [|split; [|split]]].
  - cbn. repeat split; try lia. repeat constructor.
    + exists 0%N. repeat split; [right; right; split; reflexivity|cbn; auto].
    + exists 8%N. repeat split; [right; left; split; reflexivity|cbn; auto].
    + exists 16%N. repeat split; [right; left; split; reflexivity|cbn; auto].
  - cbn. split; [|repeat split]. intro pv. destruct pv; eexists; vm_compute; reflexivity.
  - apply HT_struct; [reflexivity|]. intros k o t x Hk Hx. destruct k as [|[|[|k]]]; cbn in Hk, Hx.
    + injection Hk as <- <-. injection Hx as <-. apply HT_int. cbn. lia.
    + injection Hk as <- <-. injection Hx as <-. apply HT_bool.
    + injection Hk as <- <-. injection Hx as <-. apply HT_str.
    + destruct k; discriminate Hk.
  - vm_compute. reflexivity.
  - vm_compute. reflexivity.
Qed.
