(* C03/C12/C04 - byte-level primitives of the encoder at specification level:
   decimal integers (strconv.AppendInt/AppendUint), string quoting (native/quote.c tables, single and
   double mode), the HTML-escape post pass (native/html_escape.c), UTF-8 correction (utf8.CorrectWith with
   "�"), base64 (StdEncoding, padded).  The SIMD/blocked structure of the native routines is property
   C20's subject; here only their input/output function is needed. *)
From Coq Require Import List NArith ZArith Bool Lia.
Import ListNotations.
Local Open Scope N_scope.

Definition bytes := list N.

Fixpoint bytes_eqb (a b : bytes) : bool :=
  match a, b with
  | [], [] => true
  | x :: a', y :: b' => (x =? y) && bytes_eqb a' b'
  | _, _ => false
  end.

Lemma bytes_eqb_eq : forall a b, bytes_eqb a b = true <-> a = b.
Proof.
  induction a as [|x a IH]; destruct b as [|y b]; cbn [bytes_eqb]; split; intro H; try congruence; try discriminate.
  - apply andb_true_iff in H. destruct H as [H1 H2]. apply N.eqb_eq in H1. apply IH in H2. congruence.
  - inversion H; subst. rewrite N.eqb_refl. cbn. apply IH. reflexivity.
Qed.

(* ---- ASCII helpers *)
Definition ch_quote := 34.   Definition ch_bslash := 92.
Definition hexdig (n : N) : N := if n <? 10 then 48 + n else 87 + n.   (* lower case *)

(* ---- decimal *)
Fixpoint dec_digits (fuel : nat) (n : N) (acc : bytes) : bytes :=
  match fuel with
  | O => acc
  | S f => let acc' := (48 + n mod 10) :: acc in
           if n / 10 =? 0 then acc' else dec_digits f (n / 10) acc'
  end.

(* strconv.AppendUint(_, n, 10); 20 digits are enough below 2^64, N.size-based fuel for the general case *)
Definition utoa (n : N) : bytes := dec_digits (S (N.to_nat (N.size n))) n [].

(* strconv.AppendInt(_, z, 10) *)
Definition itoa (z : Z) : bytes :=
  match z with
  | Zneg p => 45 :: utoa (Npos p)
  | _ => utoa (Z.to_N z)
  end.

(* ---- quoting: native/parsing.h _SingleQuoteTab / _DoubleQuoteTab *)
Definition u00 (c : N) : bytes := [92; 117; 48; 48; hexdig (c / 16); hexdig (c mod 16)].

Definition single_esc (c : N) : option bytes :=
  if c =? 9 then Some [92; 116]          (* \t *)
  else if c =? 10 then Some [92; 110]    (* \n *)
  else if c =? 13 then Some [92; 114]    (* \r *)
  else if c <? 32 then Some (u00 c)
  else if c =? 34 then Some [92; 34]
  else if c =? 92 then Some [92; 92]
  else None.

Definition double_esc (c : N) : option bytes :=
  if c =? 9 then Some [92; 92; 116]
  else if c =? 10 then Some [92; 92; 110]
  else if c =? 13 then Some [92; 92; 114]
  else if c <? 32 then Some (92 :: u00 c)
  else if c =? 34 then Some [92; 92; 92; 34]
  else if c =? 92 then Some [92; 92; 92; 92]
  else None.

Definition esc_with (tab : N -> option bytes) (s : bytes) : bytes :=
  flat_map (fun c => match tab c with Some e => e | None => [c] end) s.

(* alg.Quote(buf, val, double): the empty string and the delimiters as in alg/spec.go *)
Definition quote (s : bytes) (double : bool) : bytes :=
  if double then [34; 92; 34] ++ esc_with double_esc s ++ [92; 34; 34]
  else [34] ++ esc_with single_esc s ++ [34].

(* ---- HTML escape pass (whole buffer): < > & and E2 80 A8 / E2 80 A9 *)
Definition u_esc (a b c d : N) : bytes := [92; 117; a; b; c; d].
Fixpoint html_escape (s : bytes) : bytes :=
  match s with
  | [] => []
  | c :: r =>
      if c =? 60 then u_esc 48 48 51 99 ++ html_escape r          (* < *)
      else if c =? 62 then u_esc 48 48 51 101 ++ html_escape r    (* > *)
      else if c =? 38 then u_esc 48 48 50 54 ++ html_escape r     (* & *)
      else match c, r with
           | 226, 128 :: 168 :: r' => u_esc 50 48 50 56 ++ html_escape r'   (*   *)
           | 226, 128 :: 169 :: r' => u_esc 50 48 50 57 ++ html_escape r'   (*   *)
           | _, _ => c :: html_escape r
           end
  end.

(* ---- UTF-8: length of the valid encoding starting the list, 0 when the first byte starts no valid encoding
   (Go's utf8.DecodeRune acceptance: no overlongs, no surrogates, <= U+10FFFF) *)
Definition cont (b : N) : bool := (128 <=? b) && (b <? 192).
Definition between (lo hi b : N) : bool := (lo <=? b) && (b <=? hi).

Definition utf8_len (s : bytes) : nat :=
  match s with
  | [] => 0%nat
  | b0 :: r =>
      if b0 <? 128 then 1%nat
      else if between 194 223 b0 then
        match r with b1 :: _ => if cont b1 then 2%nat else 0%nat | _ => 0%nat end
      else if between 224 239 b0 then
        match r with
        | b1 :: b2 :: _ =>
            let lo := if b0 =? 224 then 160 else 128 in
            let hi := if b0 =? 237 then 159 else 191 in
            if between lo hi b1 && cont b2 then 3%nat else 0%nat
        | _ => 0%nat
        end
      else if between 240 244 b0 then
        match r with
        | b1 :: b2 :: b3 :: _ =>
            let lo := if b0 =? 240 then 144 else 128 in
            let hi := if b0 =? 244 then 143 else 191 in
            if between lo hi b1 && cont b2 && cont b3 then 4%nat else 0%nat
        | _ => 0%nat
        end
      else 0%nat
  end.

Definition repl_fffd : bytes := [92; 117; 102; 102; 102; 100].   (* the six characters � *)

(* utf8.CorrectWith(nil, s, `�`): every byte that does not start a valid encoding is replaced *)
Fixpoint utf8_correct_aux (fuel : nat) (s : bytes) : bytes :=
  match fuel with
  | O => []
  | S f =>
      match s with
      | [] => []
      | b :: r =>
          match utf8_len s with
          | O => repl_fffd ++ utf8_correct_aux f r
          | n => firstn n s ++ utf8_correct_aux f (skipn n s)
          end
      end
  end.
Definition utf8_correct (s : bytes) : bytes := utf8_correct_aux (length s) s.

Fixpoint utf8_valid_aux (fuel : nat) (s : bytes) : bool :=
  match fuel with
  | O => true
  | S f => match s with
           | [] => true
           | _ => match utf8_len s with O => false | n => utf8_valid_aux f (skipn n s) end
           end
  end.
Definition utf8_valid (s : bytes) : bool := utf8_valid_aux (length s) s.

(* ---- base64, standard alphabet with padding (rt.EncodeBase64 = base64.StdEncoding) *)
Definition b64ch (n : N) : N :=
  if n <? 26 then 65 + n else if n <? 52 then 97 + (n - 26) else if n <? 62 then 48 + (n - 52)
  else if n =? 62 then 43 else 47.

Fixpoint base64 (s : bytes) : bytes :=
  match s with
  | a :: b :: c :: r =>
      b64ch (a / 4) :: b64ch ((a mod 4) * 16 + b / 16) :: b64ch ((b mod 16) * 4 + c / 64) :: b64ch (c mod 64) :: base64 r
  | [a; b] => [b64ch (a / 4); b64ch ((a mod 4) * 16 + b / 16); b64ch ((b mod 16) * 4); 61]
  | [a] => [b64ch (a / 4); b64ch ((a mod 4) * 16); 61; 61]
  | [] => []
  end.

(* ---- literals *)
Definition s_null : bytes := [110; 117; 108; 108].
Definition s_true : bytes := [116; 114; 117; 101].
Definition s_false : bytes := [102; 97; 108; 115; 101].

Example utoa_ex : utoa 18446744073709551615 = [49;56;52;52;54;55;52;52;48;55;51;55;48;57;53;53;49;54;49;53]. Proof. reflexivity. Qed.
Example itoa_ex : itoa (-120)%Z = [45;49;50;48] /\ itoa 0%Z = [48]. Proof. split; reflexivity. Qed.
Example base64_ex : base64 [102;111;111;98] = [90;109;57;118;89;103;61;61]. Proof. reflexivity. Qed.
Example quote_ex : quote [97;34;8] false = [34;97;92;34;92;117;48;48;48;56;34]. Proof. reflexivity. Qed.
