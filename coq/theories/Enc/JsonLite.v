(* C03/C04 - a byte-driven JSON scanner: transcription of encoding/json's scanner (scan.go), which is what
   json.Compact (prim.Compact, option CompactMarshaler) runs over the output of a user MarshalJSON, and the
   reference notion of "one well-formed JSON value with optional surrounding white space" used by C04. *)
From Coq Require Import List NArith Bool Lia.
From SV.Enc Require Import Prims.
Import ListNotations.
Local Open Scope N_scope.

Inductive pstate := ParseObjectKey | ParseObjectValue | ParseArrayValue.

Inductive sstep :=
| SBeginValue | SBeginValueOrEmpty | SBeginStringOrEmpty | SBeginString
| SEndValue | SEndTop
| SInString | SInStringEsc | SInStringEscU (left : nat)
| SNeg | S0 | S1 | SDot | SDot0 | SE | SESign | SE0
| SLit (rest : bytes).

Record scanner := { step : sstep; pstack : list pstate }.

(* result of feeding one byte *)
Inductive sres :=
| RCont (s : scanner)        (* the byte belongs to the value (scanContinue .. scanEndArray) *)
| RSkip (s : scanner)        (* scanSkipSpace / scanEnd: white space outside strings *)
| RError.

Definition is_space (c : N) : bool := (c =? 32) || (c =? 9) || (c =? 13) || (c =? 10).
Definition is_digit (c : N) : bool := (48 <=? c) && (c <=? 57).
Definition is_digit19 (c : N) : bool := (49 <=? c) && (c <=? 57).
Definition is_hex (c : N) : bool := is_digit c || ((97 <=? c) && (c <=? 102)) || ((65 <=? c) && (c <=? 70)).

Definition mk (st : sstep) (ps : list pstate) := {| step := st; pstack := ps |}.

Definition stateEndTop (ps : list pstate) (c : N) : sres :=
  if is_space c then RSkip (mk SEndTop ps) else RError.

(* popParseState *)
Definition pop (ps : list pstate) : scanner :=
  match ps with
  | _ :: [] => mk SEndTop []
  | _ :: r => mk SEndValue r
  | [] => mk SEndTop []
  end.

Definition stateEndValue (ps : list pstate) (c : N) : sres :=
  match ps with
  | [] => stateEndTop [] c
  | top :: r =>
      if is_space c then RSkip (mk SEndValue ps) else
      match top with
      | ParseObjectKey => if c =? 58 then RCont (mk SBeginValue (ParseObjectValue :: r)) else RError
      | ParseObjectValue =>
          if c =? 44 then RCont (mk SBeginString (ParseObjectKey :: r))
          else if c =? 125 then RCont (pop ps) else RError
      | ParseArrayValue =>
          if c =? 44 then RCont (mk SBeginValue ps)
          else if c =? 93 then RCont (pop ps) else RError
      end
  end.

Definition stateBeginValue (ps : list pstate) (c : N) : sres :=
  if is_space c then RSkip (mk SBeginValue ps)
  else if c =? 123 then RCont (mk SBeginStringOrEmpty (ParseObjectKey :: ps))
  else if c =? 91 then RCont (mk SBeginValueOrEmpty (ParseArrayValue :: ps))
  else if c =? 34 then RCont (mk SInString ps)
  else if c =? 45 then RCont (mk SNeg ps)
  else if c =? 48 then RCont (mk S0 ps)
  else if c =? 116 then RCont (mk (SLit [114; 117; 101]) ps)
  else if c =? 102 then RCont (mk (SLit [97; 108; 115; 101]) ps)
  else if c =? 110 then RCont (mk (SLit [117; 108; 108]) ps)
  else if is_digit19 c then RCont (mk S1 ps)
  else RError.

Definition stateBeginString (ps : list pstate) (c : N) : sres :=
  if is_space c then RSkip (mk SBeginString ps)
  else if c =? 34 then RCont (mk SInString ps) else RError.

Definition state0 (ps : list pstate) (c : N) : sres :=
  if c =? 46 then RCont (mk SDot ps)
  else if (c =? 101) || (c =? 69) then RCont (mk SE ps)
  else stateEndValue ps c.

Definition stateESign (ps : list pstate) (c : N) : sres :=
  if is_digit c then RCont (mk SE0 ps) else RError.

Definition feed (s : scanner) (c : N) : sres :=
  let ps := pstack s in
  match step s with
  | SBeginValue => stateBeginValue ps c
  | SBeginValueOrEmpty =>
      if is_space c then RSkip s
      else if c =? 93 then stateEndValue ps c else stateBeginValue ps c
  | SBeginStringOrEmpty =>
      if is_space c then RSkip s
      else if c =? 125 then
        match ps with
        | _ :: r => stateEndValue (ParseObjectValue :: r) c
        | [] => RError
        end
      else stateBeginString ps c
  | SBeginString => stateBeginString ps c
  | SEndValue => stateEndValue ps c
  | SEndTop => stateEndTop ps c
  | SInString =>
      if c =? 34 then RCont (mk SEndValue ps)
      else if c =? 92 then RCont (mk SInStringEsc ps)
      else if c <? 32 then RError
      else RCont s
  | SInStringEsc =>
      if (c =? 98) || (c =? 102) || (c =? 110) || (c =? 114) || (c =? 116) || (c =? 92) || (c =? 47) || (c =? 34)
      then RCont (mk SInString ps)
      else if c =? 117 then RCont (mk (SInStringEscU 4) ps)
      else RError
  | SInStringEscU n =>
      if is_hex c then
        match n with
        | S (S m) => RCont (mk (SInStringEscU (S m)) ps)
        | _ => RCont (mk SInString ps)
        end
      else RError
  | SNeg => if c =? 48 then RCont (mk S0 ps) else if is_digit19 c then RCont (mk S1 ps) else RError
  | S1 => if is_digit c then RCont s else state0 ps c
  | S0 => state0 ps c
  | SDot => if is_digit c then RCont (mk SDot0 ps) else RError
  | SDot0 =>
      if is_digit c then RCont s
      else if (c =? 101) || (c =? 69) then RCont (mk SE ps)
      else stateEndValue ps c
  | SE => if (c =? 43) || (c =? 45) then RCont (mk SESign ps) else stateESign ps c
  | SESign => stateESign ps c
  | SE0 => if is_digit c then RCont s else stateEndValue ps c
  | SLit rest =>
      match rest with
      | x :: [] => if c =? x then RCont (mk SEndValue ps) else RError
      | x :: r => if c =? x then RCont (mk (SLit r) ps) else RError
      | [] => RError
      end
  end.

Definition scan_init : scanner := mk SBeginValue [].

(* scanner.eof(): a value has been completed (possibly by feeding one more space) *)
Definition at_eof (s : scanner) : bool :=
  match step s with
  | SEndTop => true
  | _ => match feed s 32 with
         | RSkip s' | RCont s' => match step s' with SEndTop => true | _ => false end
         | RError => false
         end
  end.

(* json.Compact: the input without the insignificant white space, None when it is not exactly one JSON value *)
Fixpoint compact_go (s : scanner) (src : bytes) (acc : bytes) : option bytes :=
  match src with
  | [] => if at_eof s then Some (rev acc) else None
  | c :: r =>
      match feed s c with
      | RCont s' => compact_go s' r (c :: acc)
      | RSkip s' => compact_go s' r acc
      | RError => None
      end
  end.
Definition compact (src : bytes) : option bytes := compact_go scan_init src [].

(* one well-formed JSON value, optional surrounding white space *)
Definition json_valid (src : bytes) : bool := match compact src with Some _ => true | None => false end.

(* ---- the native validator (alg.Valid -> native validate_one), as far as Marshaler output is concerned: the same
   automaton except inside string literals, where the byte after a backslash is not checked and control characters
   are accepted (observed on the pre-assembled routine: "\x", "\u12", raw 0x01 are all accepted; property C02 owns
   the full model of that routine) *)
Definition feed_native (s : scanner) (c : N) : sres :=
  let ps := pstack s in
  match step s with
  | SInString =>
      if c =? 34 then RCont (mk SEndValue ps)
      else if c =? 92 then RCont (mk SInStringEsc ps)
      else RCont s
  | SInStringEsc | SInStringEscU _ => RCont (mk SInString ps)
  | _ => feed s c
  end.

Fixpoint native_go (s : scanner) (src : bytes) : bool :=
  match src with
  | [] => at_eof s
  | c :: r =>
      match feed_native s c with
      | RCont s' | RSkip s' => native_go s' r
      | RError => false
      end
  end.
Definition native_valid (src : bytes) : bool := native_go scan_init src.

Example native_valid_ex :
  native_valid [34; 92; 120; 34] = true /\ json_valid [34; 92; 120; 34] = false /\      (* "\x" *)
  native_valid [34; 97; 1; 34] = true /\ native_valid [34; 92] = false /\ native_valid [91; 49; 44; 93] = false.
Proof. repeat split; reflexivity. Qed.

Example compact_ex :
  compact [32; 123; 34; 97; 34; 32; 58; 9; 91; 32; 49; 32; 44; 32; 50; 32; 93; 32; 125; 10]
  = Some [123; 34; 97; 34; 58; 91; 49; 44; 50; 93; 125].
Proof. reflexivity. Qed.
Example valid_ex : json_valid [49; 32; 50] = false /\ json_valid [] = false /\ json_valid [45; 48; 46; 53; 101; 43; 49] = true
                   /\ json_valid [123; 34; 97; 34; 58] = false /\ json_valid [110; 117; 108; 108] = true.
Proof. repeat split; reflexivity. Qed.
