(* C03/C12/C04 - internal/encoder/vm/vm.go:Execute as a small-step machine over the abstract value tree.
   Nested Execute calls (OP_recurse / OP_eface / OP_iface -> EncodeTypedPointer) are frames on an explicit
   control stack; vars.Stack (the MaxStack-bounded state stack shared by all nested calls) is `stk`.
   The machine is parameterised by the primitive set (C12: prims_vm = the Go fallbacks of alg/spec.go,
   prims_jit = the native routines the JIT code calls). *)
From Coq Require Import List NArith ZArith Bool Lia.
From SV.Num Require Import NumGrammar.
From SV.Enc Require Import Prims Ty Val IR Compile JsonLite MapSort.
Import ListNotations.
Local Open Scope nat_scope.

(* alg/opts.go *)
Definition BitSortMapKeys : N := 0.
Definition BitEscapeHTML : N := 1.
Definition BitCompactMarshaler : N := 2.
Definition BitNoQuoteTextMarshaler : N := 3.
Definition BitNoNullSliceOrMap : N := 4.
Definition BitValidateString : N := 5.
Definition BitNoValidateJSONMarshaler : N := 6.
Definition BitNoEncoderNewline : N := 7.
Definition BitEncodeNullForInfOrNan : N := 8.
Definition BitPointerValue : N := 63.

Definition has_opts (flags : N) (bit : N) : bool := N.testbit flags bit.
Definition set_bit (flags : N) (bit : N) : N := N.lor flags (N.shiftl 1 bit).
Definition clear_bit (flags : N) (bit : N) : N := N.ldiff flags (N.shiftl 1 bit).

Record prims := {
  p_i64toa : Z -> bytes;
  p_u64toa : Z -> bytes;
  p_f64toa : N -> bytes -> bytes;      (* bits, shortest decimal text of the value *)
  p_f32toa : N -> bytes -> bytes;
  p_quote : bytes -> bool -> bytes;
  p_stack : N;                         (* number of vars.Stack frames a Save may fill *)
  (* the option bit each executor's code tests in the ops that read the option word *)
  b_f32 : N; b_f64 : N; b_map_write_key : N; b_empty_arr : N; b_empty_obj : N;
  b_recurse : N;                        (* set when pv, cleared otherwise, in the flag word handed to the callee *)
  b_eface : N; b_iface : N }.           (* cleared in the flag word of the dynamic value's encoder (fix 40fcf6e) *)

Inductive verr :=
| E_too_deep            (* vars.ERR_too_deep *)
| E_nan                 (* vars.ERR_nan_or_infinite *)
| E_number              (* vars.Error_number *)
| E_unsupported         (* vars.Error_unsuppoted / Error_type: json.UnsupportedTypeError *)
| E_marshaler           (* error returned by a user method, or its output rejected *)
| E_nest.               (* panic("type nesting too deep") at compile time *)

Record miter := { it_k : ptr; it_v : ptr; it_rest : list (ptr * ptr) }.

Record regs := { rx : nat; rcond : bool; rinit : bool; rp : ptr; rq : option miter }.

Record frame := { fprog : program; fpc : nat; fflags : N; fregs : regs }.

Record state := {
  frames : list frame;
  out : list bytes;              (* emitted chunks, last first *)
  stk : list regs;               (* vars.Stack *)
  reqs : list (ty * bool) }.     (* FindOrCompile requests (type, pv) in order - to recognise cache-sensitive runs *)

Inductive outcome :=
| Running (s : state)
| Done (o : bytes)
| Fail (x : verr)
| Crash (code : nat)             (* the machine would touch memory the value tree does not describe; never on compiled programs *)
| OutOfFuel.

Definition out_bytes (o : list bytes) : bytes := concat (rev o).

Definition is_nan_inf64 (bits : N) : bool := ((bits / 2 ^ 52) mod 2048 =? 2047)%N.
Definition is_nan_inf32 (bits : N) : bool := ((bits / 2 ^ 23) mod 256 =? 255)%N.

Fixpoint direct_nil (v : val) : bool :=     (* pointer-shaped value whose single pointer word is nil *)
  match v with
  | VPtr None | VMap None => true
  | VStruct [x] => direct_nil x
  | VArr [x] => direct_nil x
  | VMeth _ _ u => direct_nil u
  | VOpaque => true
  | _ => false
  end.

(* second machine word of the header at the cursor is zero (OP_is_nil_p1) *)
Definition word1_zero (v : val) : option bool :=
  match v with
  | VStr s => Some (match s with [] => true | _ => false end)
  | VSlice None => Some true
  | VSlice (Some l) => Some (match l with [] => true | _ => false end)
  | VIface None => Some true
  | VIface (Some (_, dv)) => Some (direct_nil dv)
  | _ => None
  end.

(* the oracle pair of the receiver of a method call *)
Definition meth_of (v : val) : option (oracle * oracle) :=
  match v with
  | VMeth j t _ => Some (j, t)
  | VPtr (Some (VMeth j t _)) => Some (j, t)
  | _ => None
  end.

Fixpoint bytes_of_vals (l : list val) : option bytes :=
  match l with
  | [] => Some []
  | VInt z :: r => match bytes_of_vals r with Some b => Some (Z.to_N z :: b) | None => None end
  | VMeth _ _ (VInt z) :: r => match bytes_of_vals r with Some b => Some (Z.to_N z :: b) | None => None end
  | _ => None
  end.

Section Exec.
  Variable P : prims.
  Variable e : env.
  Variable co : copts.

  Definition emit (s : state) (b : bytes) : state :=
    {| frames := frames s; out := b :: out s; stk := stk s; reqs := reqs s |}.

  (* prim.EncodeJsonMarshaler / EncodeTextMarshaler *)
  Definition encodeJsonMarshaler (flags : N) (o : oracle) : option (option bytes) :=   (* None = crash *)
    match o with
    | ONone => None
    | OErr => Some None
    | OOk ret =>
        if has_opts flags BitCompactMarshaler then Some (compact ret)
        else if negb (has_opts flags BitNoValidateJSONMarshaler) && negb (native_valid ret) then Some None   (* alg.Valid: the native validator *)
        else Some (Some ret)
    end.

  Definition encodeTextMarshaler (flags : N) (o : oracle) : option (option bytes) :=
    match o with
    | ONone => None
    | OErr => Some None
    | OOk ret => if has_opts flags BitNoQuoteTextMarshaler then Some (Some ret) else Some (Some (p_quote P ret false))
    end.

  (* alg/mapiter.go: MapIterator.append - the text of one key *)
  Inductive keyres := KOk (b : bytes) | KFail (x : verr) | KCrash.
  Definition key_text (kt : ty) (kv : val) : keyres :=
    if is_kind e kt KString then match strip kv with VStr s => KOk s | _ => KCrash end
    else if implements e kt MText then
      match rkind_of e kt with
      | RInterface =>
          match kv with
          | VIface (Some (_, dv)) =>
              match meth_of dv with Some (_, OOk b) => KOk b | Some (_, OErr) => KFail E_marshaler | _ => KCrash end
          | _ => KCrash
          end
      | RPtr =>
          match kv with
          | VPtr None => KOk []
          | _ => match meth_of kv with Some (_, OOk b) => KOk b | Some (_, OErr) => KFail E_marshaler | _ => KCrash end
          end
      | _ => match meth_of kv with Some (_, OOk b) => KOk b | Some (_, OErr) => KFail E_marshaler | _ => KCrash end
      end
    else
      match rkind_of e kt, strip kv with
      | RPrim (KInt | KInt8 | KInt16 | KInt32 | KInt64), VInt z => KOk (itoa z)
      | RPrim (KUint | KUint8 | KUint16 | KUint32 | KUint64 | KUintptr), VInt z => KOk (utoa (Z.to_N z))
      | RPrim KBool, VBool b => KOk (if b then s_true else s_false)
      | RPrim (KInt | KInt8 | KInt16 | KInt32 | KInt64 | KUint | KUint8 | KUint16 | KUint32 | KUint64 | KUintptr | KBool), _ => KCrash
      | _, _ => KFail E_unsupported
      end.

  Fixpoint key_texts (kt et : ty) (l : list (val * val)) : keyres + list (bytes * ptr) :=
    match l with
    | [] => inr []
    | (k, v) :: r =>
        match key_text kt k with
        | KOk b => match key_texts kt et r with
                   | inr t => inr ((b, PAt et v 0) :: t)
                   | inl x => inl x
                   end
        | x => inl x
        end
    end.

  (* alg.IteratorStart *)
  Definition iterator_start (flags : N) (mt : ty) (l : list (val * val)) : keyres + miter :=
    let kt := key_of e mt in let et := elem_of e mt in
    match l with
    | [] => inr {| it_k := PNil; it_v := PNil; it_rest := [] |}
    | (k0, v0) :: r =>
        if negb (has_opts flags BitSortMapKeys)
        then inr {| it_k := PAt kt k0 0; it_v := PAt et v0 0;
                    it_rest := map (fun kv => (PAt kt (fst kv) 0, PAt et (snd kv) 0)) r |}
        else match key_texts kt et l with
             | inl x => inl x
             | inr ps =>
                 match map (fun kv => (PAt (TPrim KString) (VStr (fst kv)) 0, snd kv)) (sort_pairs ps) with
                 | (k, v) :: r' => inr {| it_k := k; it_v := v; it_rest := r' |}
                 | [] => inl KCrash
                 end
             end
    end.

  (* alg.IteratorNext *)
  Definition iterator_next (it : miter) : miter :=
    match it_rest it with
    | [] => {| it_k := PNil; it_v := PNil; it_rest := [] |}
    | (k, v) :: r => {| it_k := k; it_v := v; it_rest := r |}
    end.

  Definition set_pc (f : frame) (pc : nat) : frame := {| fprog := fprog f; fpc := pc; fflags := fflags f; fregs := fregs f |}.
  Definition set_regs (f : frame) (r : regs) : frame := {| fprog := fprog f; fpc := fpc f; fflags := fflags f; fregs := r |}.
  Definition set_p (r : regs) (p : ptr) : regs := {| rx := rx r; rcond := rcond r; rinit := rinit r; rp := p; rq := rq r |}.

  Definition regs0 (p : ptr) : regs := {| rx := 0; rcond := false; rinit := false; rp := p; rq := None |}.

  (* vm.EncodeTypedPointer(buf, vt, vp, sb, fv) from a state whose top frame has already been advanced *)
  Definition call (s : state) (vt : ty) (p : ptr) (fv : N) : outcome :=
    let pv := has_opts fv BitPointerValue in
    match compile e co vt pv with
    | CErr (CE_type _) => Fail E_unsupported
    | CErr CE_nest => Fail E_nest
    | CErr CE_fuel => OutOfFuel
    | COk prog =>
        Running {| frames := {| fprog := prog; fpc := 0; fflags := fv; fregs := regs0 p |} :: frames s;
                   out := out s; stk := stk s; reqs := (vt, pv) :: reqs s |}
    end.

  Definition with_top (s : state) (f : frame) (rest : list frame) : state :=
    {| frames := f :: rest; out := out s; stk := stk s; reqs := reqs s |}.

  Definition step (s : state) : outcome :=
    match frames s with
    | [] => Done (out_bytes (out s))
    | f :: rest =>
        match nth_error (fprog f) (fpc f) with
        | None =>                                   (* pc >= pl: Execute returns nil *)
            match rest with
            | [] => Done (out_bytes (out s))
            | _ => Running {| frames := rest; out := out s; stk := stk s; reqs := reqs s |}
            end
        | Some ins =>
            let f1 := set_pc f (S (fpc f)) in       (* pc++ *)
            let r := fregs f in
            let p := rp r in
            let flags := fflags f in
            let next := Running (with_top s f1 rest) in
            let jump l := Running (with_top s (set_pc f l) rest) in
            let put b := Running (emit (with_top s f1 rest) b) in
            let setr r' := Running (with_top s (set_regs f1 r') rest) in
            match ins with
            | OP_goto l => jump l
            | OP_byte b => put [b]
            | OP_text t => put t
            | OP_deref =>
                match leaf e p with
                | Some (lt, VPtr (Some x)) =>
                    match unfold e lt with TPtr el => setr (set_p r (PAt el x 0)) | _ => Crash 1 end
                | Some (_, VPtr None) => setr (set_p r PNil)
                | _ => Crash 1
                end
            | OP_index n => setr (set_p r (padd p n))
            | OP_load =>
                match stk s with
                | st :: _ => setr {| rx := rx st; rcond := rcond r; rinit := rinit r; rp := rp st; rq := rq st |}
                | [] => Crash 2
                end
            | OP_save =>
                if (N.of_nat (length (stk s)) <? p_stack P)%N
                then Running {| frames := f1 :: rest; out := out s; stk := r :: stk s; reqs := reqs s |}
                else Fail E_too_deep
            | OP_drop =>
                match stk s with
                | st :: t => Running {| frames := set_regs f1 st :: rest; out := out s; stk := t; reqs := reqs s |}
                | [] => Crash 3
                end
            | OP_drop_2 =>
                match stk s with
                | _ :: st :: t => Running {| frames := set_regs f1 st :: rest; out := out s; stk := t; reqs := reqs s |}
                | _ => Crash 4
                end
            | OP_recurse vt pv =>
                let fv := if pv then set_bit flags (b_recurse P) else clear_bit flags (b_recurse P) in
                call (with_top s f1 rest) vt p fv
            | OP_is_nil l =>
                match leaf e p with
                | Some (_, v) => match word0_zero v with Some true => jump l | Some false => next | None => Crash 5 end
                | None => Crash 5
                end
            | OP_is_nil_p1 l =>
                match leaf e p with
                | Some (_, v) => match word1_zero v with Some true => jump l | Some false => next | None => Crash 6 end
                | None => Crash 6
                end
            | OP_null => put s_null
            | OP_str =>
                match leaf e p with Some (_, VStr v) => put (p_quote P v false) | _ => Crash 7 end
            | OP_bool =>
                match leaf e p with Some (_, VBool b) => put (if b then s_true else s_false) | _ => Crash 8 end
            | OP_i8 => match leaf e p with Some (_, VInt z) => put (p_i64toa P (as_signed 8 z)) | _ => Crash 9 end
            | OP_i16 => match leaf e p with Some (_, VInt z) => put (p_i64toa P (as_signed 16 z)) | _ => Crash 9 end
            | OP_i32 => match leaf e p with Some (_, VInt z) => put (p_i64toa P (as_signed 32 z)) | _ => Crash 9 end
            | OP_i64 => match leaf e p with Some (_, VInt z) => put (p_i64toa P (as_signed 64 z)) | _ => Crash 9 end
            | OP_u8 => match leaf e p with Some (_, VInt z) => put (p_u64toa P (pattern 8 z)) | _ => Crash 10 end
            | OP_u16 => match leaf e p with Some (_, VInt z) => put (p_u64toa P (pattern 16 z)) | _ => Crash 10 end
            | OP_u32 => match leaf e p with Some (_, VInt z) => put (p_u64toa P (pattern 32 z)) | _ => Crash 10 end
            | OP_u64 => match leaf e p with Some (_, VInt z) => put (p_u64toa P (pattern 64 z)) | _ => Crash 10 end
            | OP_f32 =>
                match leaf e p with
                | Some (_, VFloat bits txt) =>
                    if is_nan_inf32 bits
                    then (if has_opts flags (b_f32 P) then put s_null else Fail E_nan)
                    else match txt with Some t => put (p_f32toa P bits t) | None => Crash 11 end
                | _ => Crash 11
                end
            | OP_f64 =>
                match leaf e p with
                | Some (_, VFloat bits txt) =>
                    if is_nan_inf64 bits
                    then (if has_opts flags (b_f64 P) then put s_null else Fail E_nan)
                    else match txt with Some t => put (p_f64toa P bits t) | None => Crash 12 end
                | _ => Crash 12
                end
            | OP_bin =>
                match leaf e p with
                | Some (_, VSlice None) => put [34%N; 34%N]
                | Some (_, VSlice (Some l)) =>
                    match bytes_of_vals l with Some b => put ([34%N] ++ base64 b ++ [34%N]) | None => Crash 13 end
                | _ => Crash 13
                end
            | OP_quote =>
                match leaf e p with Some (_, VStr v) => put (p_quote P v true) | _ => Crash 14 end
            | OP_number =>
                match leaf e p with
                | Some (_, VStr v) =>
                    match v with
                    | [] => put [48%N]
                    | _ => if is_valid_number v then put v else Fail E_number
                    end
                | _ => Crash 15
                end
            | OP_eface =>
                match leaf e p with
                | Some (_, VIface None) => put s_null            (* vt == nil: prim.EncodeNil *)
                | Some (_, VIface (Some (dt, dv))) => call (with_top s f1 rest) dt (PAt dt dv 0) (clear_bit flags (b_eface P))
                | _ => Crash 16
                end
            | OP_iface =>
                match leaf e p with
                | Some (_, VIface None) => put s_null
                | Some (_, VIface (Some (dt, dv))) => call (with_top s f1 rest) dt (PAt dt dv 0) (clear_bit flags (b_iface P))
                | _ => Crash 16
                end
            | OP_is_zero_map l =>
                match leaf e p with
                | Some (_, VMap None) | Some (_, VMap (Some [])) => jump l
                | Some (_, VMap (Some _)) => next
                | _ => Crash 17
                end
            | OP_map_iter mt =>
                match leaf e p with
                | Some (_, VMap o) =>
                    match iterator_start flags mt (match o with Some l => l | None => [] end) with
                    | inr it => setr {| rx := rx r; rcond := rcond r; rinit := rinit r; rp := p; rq := Some it |}
                    | inl (KFail x) => Fail x
                    | inl _ => Crash 18
                    end
                | _ => Crash 18
                end
            | OP_map_stop => setr {| rx := rx r; rcond := rcond r; rinit := rinit r; rp := p; rq := None |}
            | OP_map_value_next =>
                match rq r with
                | Some it => setr {| rx := rx r; rcond := rcond r; rinit := rinit r; rp := it_v it; rq := Some (iterator_next it) |}
                | None => Crash 19
                end
            | OP_map_check_key l =>
                match rq r with
                | Some it => match it_k it with PNil => jump l | k => setr (set_p r k) end
                | None => Crash 20
                end
            | OP_map_write_key l =>
                if has_opts flags (b_map_write_key P)
                then match leaf e p with
                     | Some (_, VStr v) => Running (emit (with_top s (set_pc f l) rest) (p_quote P v false))
                     | _ => Crash 21
                     end
                else next
            | OP_slice_len =>
                match leaf e p with
                | Some (lt, VSlice o) =>
                    let l := match o with Some l => l | None => [] end in
                    let el := elem_of e lt in
                    setr {| rx := length l; rcond := rcond r; rinit := true;
                            rp := match o with Some _ => PAt (TArray (length l) el) (VArr l) 0 | None => PNil end; rq := rq r |}
                | _ => Crash 22
                end
            | OP_slice_next l vt =>
                match rx r with
                | O => jump l
                | S x' =>
                    if rinit r
                    then setr {| rx := x'; rcond := rcond r; rinit := false; rp := p; rq := rq r |}
                    else setr {| rx := x'; rcond := rcond r; rinit := false; rp := padd p (sizeof e vt); rq := rq r |}
                end
            | OP_cond_set => setr {| rx := rx r; rcond := true; rinit := rinit r; rp := p; rq := rq r |}
            | OP_cond_testc l =>
                if rcond r
                then Running (with_top s (set_regs (set_pc f l) {| rx := rx r; rcond := false; rinit := rinit r; rp := p; rq := rq r |}) rest)
                else next
            | OP_is_zero l fv =>                        (* prim.IsZero: reflect IsZero of the field (no IsZero() methods in the universe) *)
                match typed e (f_type fv) p with
                | Some v => if is_zero_val e (f_type fv) v then jump l else next
                | None => Crash 23
                end
            | OP_is_zero_1 l =>
                match leaf e p with
                | Some (_, v) => match low_zero 1 v with Some true => jump l | Some false => next | None => Crash 24 end
                | None => Crash 24
                end
            | OP_is_zero_2 l =>
                match leaf e p with
                | Some (_, v) => match low_zero 2 v with Some true => jump l | Some false => next | None => Crash 24 end
                | None => Crash 24
                end
            | OP_is_zero_4 l =>
                match leaf e p with
                | Some (_, v) => match low_zero 4 v with Some true => jump l | Some false => next | None => Crash 24 end
                | None => Crash 24
                end
            | OP_is_zero_8 l =>
                match leaf e p with
                | Some (_, v) => match low_zero 8 v with Some true => jump l | Some false => next | None => Crash 24 end
                | None => Crash 24
                end
            | OP_empty_arr => put (if has_opts flags (b_empty_arr P) then [91%N; 93%N] else s_null)
            | OP_empty_obj => put (if has_opts flags (b_empty_obj P) then [123%N; 125%N] else s_null)
            | OP_marshal vt =>
                let o := match rkind_of e vt with
                         | RInterface => match leaf e p with
                                         | Some (_, VIface None) => Some None
                                         | Some (_, VIface (Some (_, dv))) => match meth_of dv with Some (j, _) => Some (Some j) | None => None end
                                         | _ => None
                                         end
                         | RPtr => match leaf e p with
                                   | Some (_, v) => match meth_of v with Some (j, _) => Some (Some j) | None => None end
                                   | None => None
                                   end
                         | _ => match typed e vt p with
                                | Some v => match meth_of v with Some (j, _) => Some (Some j) | None => None end
                                | None => None
                                end
                         end in
                match o with
                | None => Crash 25
                | Some None => put s_null
                | Some (Some j) =>
                    match encodeJsonMarshaler flags j with
                    | None => Crash 26
                    | Some None => Fail E_marshaler
                    | Some (Some b) => put b
                    end
                end
            | OP_marshal_text vt =>
                let o := match rkind_of e vt with
                         | RInterface => match leaf e p with
                                         | Some (_, VIface None) => Some None
                                         | Some (_, VIface (Some (_, dv))) => match meth_of dv with Some (_, t) => Some (Some t) | None => None end
                                         | _ => None
                                         end
                         | RPtr => match leaf e p with
                                   | Some (_, v) => match meth_of v with Some (_, t) => Some (Some t) | None => None end
                                   | None => None
                                   end
                         | _ => match typed e vt p with
                                | Some v => match meth_of v with Some (_, t) => Some (Some t) | None => None end
                                | None => None
                                end
                         end in
                match o with
                | None => Crash 27
                | Some None => put s_null
                | Some (Some t) =>
                    match encodeTextMarshaler flags t with
                    | None => Crash 28
                    | Some None => Fail E_marshaler
                    | Some (Some b) => put b
                    end
                end
            | OP_marshal_p pt =>
                match typed e (elem_of e pt) p with
                | Some v =>
                    match meth_of v with
                    | Some (j, _) =>
                        match encodeJsonMarshaler flags j with
                        | None => Crash 29
                        | Some None => Fail E_marshaler
                        | Some (Some b) => put b
                        end
                    | None => Crash 29
                    end
                | None => Crash 29
                end
            | OP_marshal_text_p pt =>
                match typed e (elem_of e pt) p with
                | Some v =>
                    match meth_of v with
                    | Some (_, t) =>
                        match encodeTextMarshaler flags t with
                        | None => Crash 30
                        | Some None => Fail E_marshaler
                        | Some (Some b) => put b
                        end
                    | None => Crash 30
                    end
                | None => Crash 30
                end
            | OP_unsupported _ => Fail E_unsupported
            end
        end
    end.

  (* 2^n steps *)
  Fixpoint run (n : nat) (s : state) : outcome :=
    match n with
    | O => step s
    | S n' => match run n' s with
              | Running s' => run n' s'
              | o => o
              end
    end.

  Definition finish_run (o : outcome) : outcome := match o with Running _ => OutOfFuel | x => x end.

  Definition state0 : state := {| frames := []; out := []; stk := []; reqs := [] |}.

  (* encodeTypedPointer(buf, efv.Type, &efv.Value, stk, opts) for Marshal(v): v = None is the nil interface *)
  Definition exec_top (flags : N) (v : option (ty * val)) : outcome :=
    match v with
    | None => Done s_null
    | Some (t, x) =>
        match call state0 t (PAt t x 0) flags with
        | Running s => finish_run (run 40 s)
        | o => o
        end
    end.

  (* encoder.encodeFinish *)
  Definition encode_finish (flags : N) (b : bytes) : bytes :=
    let b1 := if has_opts flags BitEscapeHTML then html_escape b else b in
    if has_opts flags BitValidateString && negb (utf8_valid b1) then utf8_correct b1 else b1.

  (* encoder.Encode(val, opts) *)
  Definition encode (flags : N) (v : option (ty * val)) : outcome :=
    match exec_top flags v with
    | Done b => Done (encode_finish flags b)
    | o => o
    end.
End Exec.

