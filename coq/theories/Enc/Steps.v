(* C03 - one-step lemmas of the machine on explicit states, code placement. *)
From Coq Require Import List NArith ZArith Bool Lia.
From SV.Enc Require Import Prims Ty Val IR Compile JsonLite MapSort VM.
From SV.Enc Require Import Sim.
Import ListNotations.
Local Open Scope nat_scope.

Definition mkf (prog : program) (pc : nat) (fl : N) (r : regs) : frame :=
  {| fprog := prog; fpc := pc; fflags := fl; fregs := r |}.
Definition mks (prog : program) (pc : nat) (fl : N) (r : regs) (rest : list frame) (o : list bytes) (k : list regs)
  (rqs : list (ty * bool)) : state :=
  {| frames := mkf prog pc fl r :: rest; out := o; stk := k; reqs := rqs |}.

Lemma out_cons : forall c o, out_bytes (c :: o) = out_bytes o ++ c.
Proof. intros. unfold out_bytes. cbn [rev]. rewrite concat_app. cbn [concat]. rewrite app_nil_r. reflexivity. Qed.

(* code c sits in prog at pc *)
Definition code_at (prog : program) (pc : nat) (c : list instr) : Prop :=
  forall i ins, nth_error c i = Some ins -> nth_error prog (pc + i) = Some ins.

Lemma code_at_app_l : forall prog pc a b, code_at prog pc (a ++ b) -> code_at prog pc a.
Proof.
  intros prog pc a b H i ins Hi. apply H. rewrite nth_error_app1; [exact Hi|]. apply nth_error_Some. congruence.
Qed.

Lemma code_at_app_r : forall prog pc a b, code_at prog pc (a ++ b) -> code_at prog (pc + length a) b.
Proof.
  intros prog pc a b H i ins Hi. rewrite <- Nat.add_assoc. apply H.
  rewrite nth_error_app2 by lia. replace (length a + i - length a) with i by lia. exact Hi.
Qed.

Lemma code_at_cons : forall prog pc i c, code_at prog pc (i :: c) -> nth_error prog pc = Some i /\ code_at prog (S pc) c.
Proof.
  intros prog pc i c H. split.
  - specialize (H 0 i eq_refl). rewrite Nat.add_0_r in H. exact H.
  - intros j ins Hj. specialize (H (S j) ins Hj). rewrite Nat.add_succ_r in H. exact H.
Qed.

Lemma code_at_self : forall c, code_at c 0 c.
Proof. intros c i ins H. exact H. Qed.

Section Steps.
  Variable P : prims.
  Variable e : env.
  Variable co : copts.
  Notation step := (step P e co).

  Variables (prog : program) (fl : N) (rest : list frame) (rqs : list (ty * bool)).

  Ltac one H := unfold VM.step, mks, mkf; cbn [frames fprog fpc fflags fregs]; rewrite H; cbn [set_pc set_regs with_top emit frames out stk reqs fprog fpc fflags fregs].

  Lemma step_byte : forall pc r o k b, nth_error prog pc = Some (OP_byte b) ->
    step (mks prog pc fl r rest o k rqs) = Running (mks prog (S pc) fl r rest ([b] :: o) k rqs).
  Proof. intros. one H. reflexivity. Qed.

  Lemma step_text : forall pc r o k t, nth_error prog pc = Some (OP_text t) ->
    step (mks prog pc fl r rest o k rqs) = Running (mks prog (S pc) fl r rest (t :: o) k rqs).
  Proof. intros. one H. reflexivity. Qed.

  Lemma step_null : forall pc r o k, nth_error prog pc = Some OP_null ->
    step (mks prog pc fl r rest o k rqs) = Running (mks prog (S pc) fl r rest (s_null :: o) k rqs).
  Proof. intros. one H. reflexivity. Qed.

  Lemma step_goto : forall pc r o k l, nth_error prog pc = Some (OP_goto l) ->
    step (mks prog pc fl r rest o k rqs) = Running (mks prog l fl r rest o k rqs).
  Proof. intros. one H. reflexivity. Qed.

  Lemma step_save : forall pc r o k, nth_error prog pc = Some OP_save -> (N.of_nat (length k) < p_stack P)%N ->
    step (mks prog pc fl r rest o k rqs) = Running (mks prog (S pc) fl r rest o (r :: k) rqs).
  Proof. intros pc r o k H Hk. one H. apply N.ltb_lt in Hk. rewrite Hk. reflexivity. Qed.

  Lemma step_drop : forall pc r r0 o k, nth_error prog pc = Some OP_drop ->
    step (mks prog pc fl r rest o (r0 :: k) rqs) = Running (mks prog (S pc) fl r0 rest o k rqs).
  Proof. intros. one H. reflexivity. Qed.

  Lemma step_load : forall pc r r0 o k, nth_error prog pc = Some OP_load ->
    step (mks prog pc fl r rest o (r0 :: k) rqs) =
    Running (mks prog (S pc) fl {| rx := rx r0; rcond := rcond r; rinit := rinit r; rp := rp r0; rq := rq r0 |} rest o (r0 :: k) rqs).
  Proof. intros. one H. reflexivity. Qed.

  Lemma step_index : forall pc r o k n, nth_error prog pc = Some (OP_index n) ->
    step (mks prog pc fl r rest o k rqs) = Running (mks prog (S pc) fl (set_p r (padd (rp r) n)) rest o k rqs).
  Proof. intros. one H. reflexivity. Qed.

  Lemma step_is_nil : forall pc r o k l t v z, nth_error prog pc = Some (OP_is_nil l) ->
    leaf e (rp r) = Some (t, v) -> word0_zero v = Some z ->
    step (mks prog pc fl r rest o k rqs) = Running (mks prog (if z then l else S pc) fl r rest o k rqs).
  Proof. intros pc r o k l t v z H Hl Hz. one H. rewrite Hl, Hz. destruct z; reflexivity. Qed.

  Lemma step_empty_arr : forall pc r o k, nth_error prog pc = Some OP_empty_arr ->
    step (mks prog pc fl r rest o k rqs) =
    Running (mks prog (S pc) fl r rest ((if has_opts fl (b_empty_arr P) then [91%N; 93%N] else s_null) :: o) k rqs).
  Proof. intros pc r o k H. one H. reflexivity. Qed.

  Lemma step_deref : forall pc r o k lt el x, nth_error prog pc = Some OP_deref ->
    leaf e (rp r) = Some (lt, VPtr (Some x)) -> unfold e lt = TPtr el ->
    step (mks prog pc fl r rest o k rqs) = Running (mks prog (S pc) fl (set_p r (PAt el x 0)) rest o k rqs).
  Proof. intros pc r o k lt el x H Hl Hu. one H. rewrite Hl, Hu. reflexivity. Qed.

  Lemma step_slice_len : forall pc r o k lt l, nth_error prog pc = Some OP_slice_len ->
    leaf e (rp r) = Some (lt, VSlice (Some l)) ->
    step (mks prog pc fl r rest o k rqs) =
    Running (mks prog (S pc) fl {| rx := length l; rcond := rcond r; rinit := true;
                                   rp := PAt (TArray (length l) (elem_of e lt)) (VArr l) 0; rq := rq r |} rest o k rqs).
  Proof. intros pc r o k lt l H Hl. one H. rewrite Hl. reflexivity. Qed.

  Lemma step_slice_next_end : forall pc r o k l t, nth_error prog pc = Some (OP_slice_next l t) -> rx r = 0 ->
    step (mks prog pc fl r rest o k rqs) = Running (mks prog l fl r rest o k rqs).
  Proof. intros pc r o k l t H Hx. one H. rewrite Hx. reflexivity. Qed.

  Lemma step_slice_next_first : forall pc r o k l t x', nth_error prog pc = Some (OP_slice_next l t) -> rx r = S x' -> rinit r = true ->
    step (mks prog pc fl r rest o k rqs) =
    Running (mks prog (S pc) fl {| rx := x'; rcond := rcond r; rinit := false; rp := rp r; rq := rq r |} rest o k rqs).
  Proof. intros pc r o k l t x' H Hx Hi. one H. rewrite Hx, Hi. reflexivity. Qed.

  Lemma step_slice_next_more : forall pc r o k l t x', nth_error prog pc = Some (OP_slice_next l t) -> rx r = S x' -> rinit r = false ->
    step (mks prog pc fl r rest o k rqs) =
    Running (mks prog (S pc) fl {| rx := x'; rcond := rcond r; rinit := false; rp := padd (rp r) (sizeof e t); rq := rq r |} rest o k rqs).
  Proof. intros pc r o k l t x' H Hx Hi. one H. rewrite Hx, Hi. reflexivity. Qed.
  Lemma step_bin : forall pc r o k t l b, nth_error prog pc = Some OP_bin ->
    leaf e (rp r) = Some (t, VSlice (Some l)) -> bytes_of_vals l = Some b ->
    step (mks prog pc fl r rest o k rqs) = Running (mks prog (S pc) fl r rest (([34%N] ++ base64 b ++ [34%N]) :: o) k rqs).
  Proof. intros pc r o k t l b H Hl Hb. one H. rewrite Hl, Hb. reflexivity. Qed.
  Lemma step_cond_set : forall pc r o k, nth_error prog pc = Some OP_cond_set ->
    step (mks prog pc fl r rest o k rqs) =
    Running (mks prog (S pc) fl {| rx := rx r; rcond := true; rinit := rinit r; rp := rp r; rq := rq r |} rest o k rqs).
  Proof. intros. one H. reflexivity. Qed.

  Lemma step_cond_testc : forall pc r o k l, nth_error prog pc = Some (OP_cond_testc l) ->
    step (mks prog pc fl r rest o k rqs) =
    Running (mks prog (if rcond r then l else S pc) fl
                 {| rx := rx r; rcond := false; rinit := rinit r; rp := rp r; rq := rq r |} rest o k rqs).
  Proof. intros pc r o k l H. one H. destruct r as [x c i p q]. destruct c; reflexivity. Qed.

  (* OP_recurse: EncodeTypedPointer on the same cursor, in a new frame *)
  Lemma step_recurse : forall pc r o k vt pv prog',
    nth_error prog pc = Some (OP_recurse vt pv) ->
    compile e co vt (has_opts (if pv then set_bit fl (b_recurse P) else clear_bit fl (b_recurse P)) BitPointerValue) = COk prog' ->
    step (mks prog pc fl r rest o k rqs) =
    Running (mks prog' 0 (if pv then set_bit fl (b_recurse P) else clear_bit fl (b_recurse P)) (regs0 (rp r)) (mkf prog (S pc) fl r :: rest) o k
                 ((vt, has_opts (if pv then set_bit fl (b_recurse P) else clear_bit fl (b_recurse P)) BitPointerValue) :: rqs)).
  Proof. intros pc r o k vt pv prog' H Hc. one H. unfold call. rewrite Hc. reflexivity. Qed.

  (* the end of a nested program: Execute returns to the caller's frame *)
  Lemma step_return : forall prog' pc' fl' r' f2 rest2 o k, nth_error prog' pc' = None ->
    step {| frames := mkf prog' pc' fl' r' :: f2 :: rest2; out := o; stk := k; reqs := rqs |} =
    Running {| frames := f2 :: rest2; out := o; stk := k; reqs := rqs |}.
  Proof. intros. unfold VM.step, mkf. cbn [frames fprog fpc]. rewrite H. reflexivity. Qed.

  Lemma step_quote : forall pc r o k t v, nth_error prog pc = Some OP_quote -> leaf e (rp r) = Some (t, VStr v) ->
    step (mks prog pc fl r rest o k rqs) = Running (mks prog (S pc) fl r rest (p_quote P v true :: o) k rqs).
  Proof. intros pc r o k t v H Hl. one H. rewrite Hl. reflexivity. Qed.

  Lemma step_is_nil_p1 : forall pc r o k l t v z, nth_error prog pc = Some (OP_is_nil_p1 l) ->
    leaf e (rp r) = Some (t, v) -> word1_zero v = Some z ->
    step (mks prog pc fl r rest o k rqs) = Running (mks prog (if z then l else S pc) fl r rest o k rqs).
  Proof. intros pc r o k l t v z H Hl Hz. one H. rewrite Hl, Hz. destruct z; reflexivity. Qed.

  (* the four width-specific zero tests *)
  Definition zero_op (n : N) (l : nat) : instr :=
    if (n =? 1)%N then OP_is_zero_1 l else if (n =? 2)%N then OP_is_zero_2 l else if (n =? 4)%N then OP_is_zero_4 l else OP_is_zero_8 l.

  Lemma step_is_zero_n : forall n pc r o k l t v z, nth_error prog pc = Some (zero_op n l) ->
    (n = 1 \/ n = 2 \/ n = 4 \/ n = 8)%N ->
    leaf e (rp r) = Some (t, v) -> low_zero n v = Some z ->
    step (mks prog pc fl r rest o k rqs) = Running (mks prog (if z then l else S pc) fl r rest o k rqs).
  Proof.
    intros n pc r o k l t v z H Hn Hl Hz. destruct Hn as [Hn|[Hn|[Hn|Hn]]]; subst n; cbn in H; one H; rewrite Hl, Hz; destruct z; reflexivity.
  Qed.
End Steps.
