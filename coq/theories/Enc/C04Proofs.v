(* C04 - error paths of the encoder: values without a JSON representation produce an error, never bytes. *)
From Coq Require Import List NArith ZArith Bool Lia.
From SV.Num Require Import Dec NumGrammar NumGrammarProofs.
From SV.Enc Require Import Prims Ty Val IR Compile JsonLite MapSort VM Exec.
Import ListNotations.

Section Errors.
  Variable P : prims.
  Variable e : env.
  Variable co : copts.

  (* a final outcome of one step is the outcome of the whole run: nothing is emitted after a failure *)
  Lemma run_final : forall n s o, step P e co s = o -> (forall s', o <> Running s') -> run P e co n s = o.
  Proof.
    induction n as [|n IH]; intros s o H Hn; cbn [run]; [exact H|].
    rewrite (IH s o H Hn). destruct o; try reflexivity. exfalso. eapply Hn. reflexivity.
  Qed.

  Definition at_instr (s : state) (f : frame) (rest : list frame) (ins : instr) : Prop :=
    frames s = f :: rest /\ nth_error (fprog f) (fpc f) = Some ins.

  (* NaN / Inf without EncodeNullForInfOrNan *)
  Theorem nan64_fails : forall s f rest t bits txt n,
    at_instr s f rest OP_f64 -> leaf e (rp (fregs f)) = Some (t, VFloat bits txt) ->
    is_nan_inf64 bits = true -> has_opts (fflags f) (b_f64 P) = false ->
    run P e co n s = Fail E_nan.
  Proof.
    intros s f rest t bits txt n [Hf Hi] Hl Hn Hb. apply run_final; [|discriminate].
    unfold step. rewrite Hf, Hi, Hl, Hn, Hb. reflexivity.
  Qed.

  Theorem nan32_fails : forall s f rest t bits txt n,
    at_instr s f rest OP_f32 -> leaf e (rp (fregs f)) = Some (t, VFloat bits txt) ->
    is_nan_inf32 bits = true -> has_opts (fflags f) (b_f32 P) = false ->
    run P e co n s = Fail E_nan.
  Proof.
    intros s f rest t bits txt n [Hf Hi] Hl Hn Hb. apply run_final; [|discriminate].
    unfold step. rewrite Hf, Hi, Hl, Hn, Hb. reflexivity.
  Qed.

  (* with the option: null *)
  Theorem nan64_null : forall s f rest t bits txt,
    at_instr s f rest OP_f64 -> leaf e (rp (fregs f)) = Some (t, VFloat bits txt) ->
    is_nan_inf64 bits = true -> has_opts (fflags f) (b_f64 P) = true ->
    step P e co s = Running (emit (with_top s (set_pc f (S (fpc f))) rest) s_null).
  Proof.
    intros s f rest t bits txt [Hf Hi] Hl Hn Hb. unfold step. rewrite Hf, Hi, Hl, Hn, Hb. reflexivity.
  Qed.

  (* json.Number whose text is not a JSON number (alg.IsValidNumber = the JSON number grammar, C19) *)
  Theorem number_fails : forall s f rest t c v n,
    at_instr s f rest OP_number -> leaf e (rp (fregs f)) = Some (t, VStr (c :: v)) ->
    ~ json_number (c :: v) -> run P e co n s = Fail E_number.
  Proof.
    intros s f rest t c v n [Hf Hi] Hl Hv. apply run_final; [|discriminate].
    unfold step. rewrite Hf, Hi, Hl.
    destruct (is_valid_number (c :: v)) eqn:E; [|reflexivity].
    exfalso. apply Hv. apply is_valid_number_spec. exact E.
  Qed.

  (* unsupported kinds *)
  Theorem unsupported_fails : forall s f rest t n,
    at_instr s f rest (OP_unsupported t) -> run P e co n s = Fail E_unsupported.
  Proof.
    intros s f rest t n [Hf Hi]. apply run_final; [|discriminate]. unfold step. rewrite Hf, Hi. reflexivity.
  Qed.

  (* the state stack is full: cyclic or too deep data *)
  Theorem too_deep_fails : forall s f rest n,
    at_instr s f rest OP_save -> (p_stack P <= N.of_nat (length (stk s)))%N ->
    run P e co n s = Fail E_too_deep.
  Proof.
    intros s f rest n [Hf Hi] Hs. apply run_final; [|discriminate]. unfold step. rewrite Hf, Hi.
    assert ((N.of_nat (length (stk s)) <? p_stack P)%N = false) as -> by (apply N.ltb_ge; exact Hs).
    reflexivity.
  Qed.

  (* a save never makes the stack longer than the bound *)
  Theorem save_bounded : forall s f rest s',
    at_instr s f rest OP_save -> step P e co s = Running s' -> (N.of_nat (length (stk s')) <= p_stack P)%N.
  Proof.
    intros s f rest s' [Hf Hi] H. unfold step in H. rewrite Hf, Hi in H.
    destruct (N.of_nat (length (stk s)) <? p_stack P)%N eqn:E; [|discriminate].
    inversion H; subst s'. cbn [stk length]. apply N.ltb_lt in E. lia.
  Qed.
End Errors.

(* the compiler sends every kind without a JSON representation to OP_unsupported *)
Definition unsupported_kind (k : kind) : bool :=
  match k with KComplex64 | KComplex128 | KChan | KFunc | KUnsafePointer => true | _ => false end.

Theorem compile_unsupported : forall e co k pv, unsupported_kind k = true ->
  compile e co (TPrim k) pv = COk [OP_unsupported (TPrim k)].
Proof. intros e co k pv H. destruct k; try discriminate H; destruct pv; reflexivity. Qed.

Theorem encode_unsupported : forall P e co flags k v, unsupported_kind k = true ->
  encode P e co flags (Some (TPrim k, v)) = Fail E_unsupported.
Proof.
  intros P e co flags k v H. unfold encode, exec_top, call.
  rewrite (compile_unsupported e co k _ H).
  rewrite (run_final P e co 40 _ (Fail E_unsupported)); [reflexivity| |discriminate].
  reflexivity.
Qed.

(* NaN at top level, for every option word without the bit, both executors *)
Theorem encode_nan64 : forall P e co flags bits txt, is_nan_inf64 bits = true -> has_opts flags (b_f64 P) = false ->
  encode P e co flags (Some (TPrim KFloat64, VFloat bits txt)) = Fail E_nan.
Proof.
  intros P e co flags bits txt Hn Hb. unfold encode, exec_top, call.
  assert (compile e co (TPrim KFloat64) (has_opts flags BitPointerValue) = COk [OP_f64]) as -> by (destruct (has_opts flags BitPointerValue); reflexivity).
  set (f := {| fprog := [OP_f64]; fpc := 0; fflags := flags; fregs := regs0 (PAt (TPrim KFloat64) (VFloat bits txt) 0) |}).
  rewrite (nan64_fails P e co _ f [] (TPrim KFloat64) bits txt 40); [reflexivity| | | exact Hn | exact Hb].
  - split; reflexivity.
  - reflexivity.
Qed.

(* user Marshaler output under CompactMarshaler (ConfigStd): json.Compact rejects everything that is not one well-formed JSON value *)
Theorem marshaler_output_checked : forall flags ret, json_valid ret = false ->
  has_opts flags BitCompactMarshaler = true ->
  encodeJsonMarshaler flags (OOk ret) = Some None.
Proof.
  intros flags ret Hv H. unfold encodeJsonMarshaler. rewrite H.
  unfold json_valid in Hv. destruct (compact ret) eqn:E; [discriminate|]. reflexivity.
Qed.

Theorem marshaler_output_valid : forall flags ret out, encodeJsonMarshaler flags (OOk ret) = Some (Some out) ->
  has_opts flags BitCompactMarshaler = true -> json_valid ret = true.
Proof.
  intros flags ret out H Hf. destruct (json_valid ret) eqn:E; [reflexivity|].
  rewrite (marshaler_output_checked flags ret E Hf) in H. discriminate.
Qed.

(* without CompactMarshaler the output goes through the native validator (unless NoValidateJSONMarshaler) *)
Theorem marshaler_output_native_checked : forall flags ret, native_valid ret = false ->
  has_opts flags BitCompactMarshaler = false -> has_opts flags BitNoValidateJSONMarshaler = false ->
  encodeJsonMarshaler flags (OOk ret) = Some None.
Proof. intros flags ret Hv Hc Hn. unfold encodeJsonMarshaler. rewrite Hc, Hn, Hv. reflexivity. Qed.

(* REFUTED for that path: the native validator accepts string literals with an invalid escape or a raw control character,
   so such Marshaler output is emitted although it is not well-formed JSON (witness: the four bytes "\x") *)
Theorem marshaler_output_native_refuted :
  exists ret, json_valid ret = false /\ encodeJsonMarshaler 0 (OOk ret) = Some (Some ret).
Proof. exists [34; 92; 120; 34]%N. split; reflexivity. Qed.

Example nan_bits : is_nan_inf64 9221120237041090560 = true /\ is_nan_inf32 2139095040 = true. Proof. split; reflexivity. Qed.
