(* C12 - the interpreter and the JIT run the same IR; the machine of VM.v is parameterised by what differs between
   them (number/quote primitives, the option bit each op's code tests, the state-stack bound).
   Equal parameters => equal results, for every program, value and option word. *)
From Coq Require Import List NArith ZArith Bool Lia.
From SV.Gen Require Import EncFlags.
From SV.Enc Require Import Prims Ty Val IR Compile JsonLite MapSort VM Exec IntBridge.
Import ListNotations.

Definition prims_eq (A B : prims) : Prop :=
  (forall z, (- 2 ^ 63 <= z < 2 ^ 63)%Z -> p_i64toa A z = p_i64toa B z) /\      (* int64 arguments *)
  (forall z, (0 <= z < 2 ^ 64)%Z -> p_u64toa A z = p_u64toa B z) /\            (* uint64 arguments *)
  (forall b t, p_f64toa A b t = p_f64toa B b t) /\
  (forall b t, p_f32toa A b t = p_f32toa B b t) /\
  (forall s d, p_quote A s d = p_quote B s d) /\
  p_stack A = p_stack B /\
  b_f32 A = b_f32 B /\ b_f64 A = b_f64 B /\ b_map_write_key A = b_map_write_key B /\
  b_empty_arr A = b_empty_arr B /\ b_empty_obj A = b_empty_obj B /\ b_recurse A = b_recurse B /\
  b_eface A = b_eface B /\ b_iface A = b_iface B.

Lemma pattern_range : forall w z, (0 < w <= 64)%N -> (0 <= pattern w z < 2 ^ 64)%Z.
Proof.
  intros w z Hw. unfold pattern.
  assert (0 < 2 ^ Z.of_N w)%Z by (apply Z.pow_pos_nonneg; lia).
  pose proof (Z.mod_pos_bound z (2 ^ Z.of_N w) H).
  assert (2 ^ Z.of_N w <= 2 ^ 64)%Z by (apply Z.pow_le_mono_r; lia). lia.
Qed.

Lemma as_signed_range : forall w z, (0 < w <= 64)%N -> (- 2 ^ 63 <= as_signed w z < 2 ^ 63)%Z.
Proof.
  intros w z Hw. unfold as_signed, pattern.
  assert (Hp : (0 < 2 ^ Z.of_N w)%Z) by (apply Z.pow_pos_nonneg; lia).
  pose proof (Z.mod_pos_bound z (2 ^ Z.of_N w) Hp) as Hm.
  assert (Hh : (2 ^ Z.of_N w = 2 * 2 ^ (Z.of_N w - 1))%Z).
  { rewrite <- Z.pow_succ_r by lia. f_equal. lia. }
  assert (Hle : (2 ^ (Z.of_N w - 1) <= 2 ^ 63)%Z) by (apply Z.pow_le_mono_r; lia).
  destruct (z mod 2 ^ Z.of_N w <? 2 ^ (Z.of_N w - 1))%Z eqn:E.
  - apply Z.ltb_lt in E. lia.
  - apply Z.ltb_ge in E. lia.
Qed.

Ltac break_match :=
  repeat match goal with
         | |- context [match ?x with _ => _ end] => destruct x eqn:?; try reflexivity
         end.

(* the head scrutinee only *)
Ltac break_head :=
  match goal with
  | |- match ?x with _ => _ end = _ => destruct x eqn:?; try reflexivity
  end.

Lemma encodeText_ext : forall A B, prims_eq A B -> forall fl o, encodeTextMarshaler A fl o = encodeTextMarshaler B fl o.
Proof.
  intros A B (_ & _ & _ & _ & Hq & _) fl o. unfold encodeTextMarshaler.
  destruct o; try reflexivity. destruct (has_opts fl BitNoQuoteTextMarshaler); try reflexivity. rewrite Hq. reflexivity.
Qed.

Lemma step_ext : forall A B, prims_eq A B -> forall e co s, step A e co s = step B e co s.
Proof.
  intros A B H e co s.
  pose proof (encodeText_ext A B H) as Htx.
  destruct H as (Hi & Hu & Hf64 & Hf32 & Hq & Hst & H1 & H2 & H3 & H4 & H5 & H6 & H7 & H8).
  unfold step.
  destruct (frames s) as [|f rest]; [reflexivity|].
  destruct (nth_error (fprog f) (fpc f)) as [ins|]; [|reflexivity].
  rewrite <- ?Hst, <- ?H1, <- ?H2, <- ?H3, <- ?H4, <- ?H5, <- ?H6, <- ?H7, <- ?H8.
  destruct ins; try reflexivity;
    try (timeout 60 (break_match;
                     rewrite <- ?Hi by (apply as_signed_range; lia);
                     rewrite <- ?Hu by (apply pattern_range; lia);
                     rewrite <- ?Hf64, <- ?Hf32, <- ?Hq; reflexivity)).
  - (* OP_marshal_text *) cbv zeta. break_head. break_head. rewrite Htx. reflexivity.
  - (* OP_marshal_text_p *) break_head. break_head. destruct p as [j t0]. rewrite Htx. reflexivity.
Qed.

Lemma run_ext : forall A B, prims_eq A B -> forall e co n s, run A e co n s = run B e co n s.
Proof.
  intros A B H e co n. induction n as [|n IH]; intro s; cbn [run].
  - apply step_ext; assumption.
  - rewrite IH. destruct (run B e co n s); try reflexivity. apply IH.
Qed.

Theorem exec_agree : forall A B, prims_eq A B ->
  forall e co flags v, encode A e co flags v = encode B e co flags v.
Proof.
  intros A B H e co flags v. unfold encode, exec_top.
  destruct v as [[t x]|]; [|reflexivity].
  destruct (call e co state0 t (PAt t x 0) flags) as [s0| | | |];
    [rewrite (run_ext A B H e co 40 s0); reflexivity | reflexivity ..].
Qed.

(* ---- the two executors of this tree: where they agree, where they do not *)

(* the option bits tested per op are the same in vm.go and in the x86 assembler (generated column) *)
Theorem flag_bits_agree :
  vm_flag_tests = jit_flag_tests /\
  b_f32 prims_vm = b_f32 prims_jit /\ b_f64 prims_vm = b_f64 prims_jit /\
  b_map_write_key prims_vm = b_map_write_key prims_jit /\
  b_empty_arr prims_vm = b_empty_arr prims_jit /\ b_empty_obj prims_vm = b_empty_obj prims_jit /\
  b_recurse prims_vm = b_recurse prims_jit /\ b_eface prims_vm = b_eface prims_jit /\ b_iface prims_vm = b_iface prims_jit /\
  (* and they are the documented bits *)
  b_f32 prims_vm = BitEncodeNullForInfOrNan /\ b_f64 prims_vm = BitEncodeNullForInfOrNan /\
  b_map_write_key prims_vm = BitSortMapKeys /\ b_empty_arr prims_vm = BitNoNullSliceOrMap /\
  b_empty_obj prims_vm = BitNoNullSliceOrMap /\ b_recurse prims_vm = BitPointerValue /\
  b_eface prims_vm = BitPointerValue /\ b_iface prims_vm = BitPointerValue.
Proof. repeat split; reflexivity. Qed.

(* integers: the native fastint.h routines print what strconv prints (Num/IntPrintExact.v, Enc/IntBridge.v) *)
Theorem prims_agree_int :
  (forall z, (- 2 ^ 63 <= z < 2 ^ 63)%Z -> p_i64toa prims_vm z = p_i64toa prims_jit z) /\
  (forall z, (0 <= z < 2 ^ 64)%Z -> p_u64toa prims_vm z = p_u64toa prims_jit z).
Proof.
  split; intros z H; cbn [p_i64toa p_u64toa prims_vm prims_jit].
  - symmetry. apply i64toa_is_itoa. exact H.
  - symmetry. apply u64toa_is_utoa. exact H.
Qed.

(* strings: both executors call the same native quote *)
Theorem prims_agree_quote : forall s d, p_quote prims_vm s d = p_quote prims_jit s d.
Proof. reflexivity. Qed.

(* floats: agreement exactly outside +-0 *)
Theorem prims_agree_f64_nonzero : forall bits txt, is_zero_f64 bits = false -> p_f64toa prims_vm bits txt = p_f64toa prims_jit bits txt.
Proof. intros bits txt H. cbn. rewrite H. reflexivity. Qed.
Theorem prims_agree_f32_nonzero : forall bits txt, is_zero_f32 bits = false -> p_f32toa prims_vm bits txt = p_f32toa prims_jit bits txt.
Proof. intros bits txt H. cbn. rewrite H. reflexivity. Qed.

(* +-0 (the `v == 0` branch of alg.F64toa / F32toa): agreement whenever the digit oracle is the right one for a zero,
   i.e. "0" for +0 and "-0" for -0 (what strconv and the native routines print) *)
Definition zero_txt_ok (w : N) (bits : N) (txt : bytes) : Prop :=
  (bits = 0%N -> txt = [48%N]) /\ (bits = (2 ^ (w - 1))%N -> txt = [45; 48]%N).

Theorem prims_agree_f64_zero : forall bits txt, (bits < 2 ^ 64)%N -> zero_txt_ok 64 bits txt ->
  p_f64toa prims_vm bits txt = p_f64toa prims_jit bits txt.
Proof.
  intros bits txt Hb [H0 H1]. cbn [p_f64toa prims_vm prims_jit]. unfold is_zero_f64.
  destruct (bits mod 2 ^ 63 =? 0)%N eqn:E; [|reflexivity].
  apply N.eqb_eq in E.
  destruct (bits =? 0)%N eqn:E0.
  - apply N.eqb_eq in E0. symmetry. auto.
  - apply N.eqb_neq in E0. symmetry. apply H1.
    pose proof (N.div_mod' bits (2 ^ 63)) as D. rewrite E in D.
    assert (bits / 2 ^ 63 < 2)%N by (apply N.div_lt_upper_bound; [discriminate|]; change (2 ^ 63 * 2)%N with (2 ^ 64)%N; exact Hb).
    assert (bits / 2 ^ 63 = 0 \/ bits / 2 ^ 63 = 1)%N as [Q|Q] by lia; rewrite Q in D; [lia|].
    change (2 ^ (64 - 1))%N with (2 ^ 63)%N. lia.
Qed.

Theorem prims_agree_f32_zero : forall bits txt, (bits < 2 ^ 32)%N -> zero_txt_ok 32 bits txt ->
  p_f32toa prims_vm bits txt = p_f32toa prims_jit bits txt.
Proof.
  intros bits txt Hb [H0 H1]. cbn [p_f32toa prims_vm prims_jit]. unfold is_zero_f32.
  destruct (bits mod 2 ^ 31 =? 0)%N eqn:E; [|reflexivity].
  apply N.eqb_eq in E.
  destruct (bits =? 0)%N eqn:E0.
  - apply N.eqb_eq in E0. symmetry. auto.
  - apply N.eqb_neq in E0. symmetry. apply H1.
    pose proof (N.div_mod' bits (2 ^ 31)) as D. rewrite E in D.
    assert (bits / 2 ^ 31 < 2)%N by (apply N.div_lt_upper_bound; [discriminate|]; change (2 ^ 31 * 2)%N with (2 ^ 32)%N; exact Hb).
    assert (bits / 2 ^ 31 = 0 \/ bits / 2 ^ 31 = 1)%N as [Q|Q] by lia; rewrite Q in D; [lia|].
    change (2 ^ (32 - 1))%N with (2 ^ 31)%N. lia.
Qed.

(* -0.0 (formerly refuted: the interpreter printed 0; repaired by fix b09723f): both executors print -0 *)
Definition negzero64 : val := VFloat (2 ^ 63) (Some [45; 48]%N).
Definition negzero32 : val := VFloat (2 ^ 31) (Some [45; 48]%N).
Theorem f64_negzero_agree :
  encode prims_vm [] default_copts 39 (Some (TPrim KFloat64, negzero64)) = Done [45; 48]%N /\
  encode prims_jit [] default_copts 39 (Some (TPrim KFloat64, negzero64)) = Done [45; 48]%N /\
  encode prims_vm [] default_copts 39 (Some (TPrim KFloat32, negzero32)) = Done [45; 48]%N /\
  encode prims_jit [] default_copts 39 (Some (TPrim KFloat32, negzero32)) = Done [45; 48]%N.
Proof. repeat split; vm_compute; reflexivity. Qed.

(* the state stack: Stack.Push and the JIT's save_state admit the same number of frames (vars.MaxStack);
   formerly refuted (save_state jumped with JAE, 4095 frames), repaired by fix a4d60f7 *)
Theorem stack_bound_agree : p_stack prims_vm = p_stack prims_jit /\ p_stack prims_vm = MaxStack.
Proof. split; reflexivity. Qed.

(* everything else agrees: the JIT with the three divergent components replaced by the interpreter's
   (the `v == 0` branch of the float printers, which trusts no digit oracle) is the interpreter, on every type, value and option word *)
Definition prims_jit_repaired : prims := {|
  p_i64toa := p_i64toa prims_jit; p_u64toa := p_u64toa prims_jit;
  p_f64toa := p_f64toa prims_vm; p_f32toa := p_f32toa prims_vm;
  p_quote := p_quote prims_jit; p_stack := p_stack prims_vm;
  b_f32 := b_f32 prims_jit; b_f64 := b_f64 prims_jit; b_map_write_key := b_map_write_key prims_jit;
  b_empty_arr := b_empty_arr prims_jit; b_empty_obj := b_empty_obj prims_jit; b_recurse := b_recurse prims_jit;
  b_eface := b_eface prims_jit; b_iface := b_iface prims_jit |}.

Theorem exec_agree_partial : forall e co flags v,
  encode prims_vm e co flags v = encode prims_jit_repaired e co flags v.
Proof.
  intros. apply exec_agree. unfold prims_eq.
  destruct prims_agree_int as [Hi Hu].
  repeat split; try reflexivity; assumption.
Qed.
