(* C12 - the interpreter and the JIT run the same IR; the machine of VM.v is parameterised by what differs between
   them (number/quote primitives, the option bit each op's code tests, the state-stack bound).
   Equal parameters => equal results, for every program, value and option word. *)
From Coq Require Import List NArith ZArith Bool Lia.
From SV.Gen Require Import EncFlags.
From SV.Enc Require Import Prims Ty Val IR Compile JsonLite MapSort VM Exec.
Import ListNotations.

Definition prims_eq (A B : prims) : Prop :=
  (forall z, p_i64toa A z = p_i64toa B z) /\
  (forall z, p_u64toa A z = p_u64toa B z) /\
  (forall b t, p_f64toa A b t = p_f64toa B b t) /\
  (forall b t, p_f32toa A b t = p_f32toa B b t) /\
  (forall s d, p_quote A s d = p_quote B s d) /\
  p_stack A = p_stack B /\
  b_f32 A = b_f32 B /\ b_f64 A = b_f64 B /\ b_map_write_key A = b_map_write_key B /\
  b_empty_arr A = b_empty_arr B /\ b_empty_obj A = b_empty_obj B /\ b_recurse A = b_recurse B.

Ltac break_match :=
  repeat match goal with
         | |- context [match ?x with _ => _ end] => destruct x eqn:?; try reflexivity
         end.

(* the head scrutinee only *)
Ltac break_head :=
  match goal with
  | |- match ?x with _ => _ end = _ => destruct x eqn:?; try reflexivity
  end.

Lemma encodeText_ext : forall A B, prims_eq A B -> forall fl o, encodeTextMarshaler A fl o = encodeTextMarshaler B fl o.
Proof.
  intros A B (_ & _ & _ & _ & Hq & _) fl o. unfold encodeTextMarshaler.
  destruct o; try reflexivity. destruct (has_opts fl BitNoQuoteTextMarshaler); try reflexivity. rewrite Hq. reflexivity.
Qed.

Lemma step_ext : forall A B, prims_eq A B -> forall e co s, step A e co s = step B e co s.
Proof.
  intros A B H e co s.
  pose proof (encodeText_ext A B H) as Htx.
  destruct H as (Hi & Hu & Hf64 & Hf32 & Hq & Hst & H1 & H2 & H3 & H4 & H5 & H6).
  unfold step.
  destruct (frames s) as [|f rest]; [reflexivity|].
  destruct (nth_error (fprog f) (fpc f)) as [ins|]; [|reflexivity].
  rewrite <- ?Hst, <- ?H1, <- ?H2, <- ?H3, <- ?H4, <- ?H5, <- ?H6.
  destruct ins; try reflexivity;
    try (timeout 60 (break_match; rewrite <- ?Hi, <- ?Hu, <- ?Hf64, <- ?Hf32, <- ?Hq; reflexivity)).
  - (* OP_marshal_text *) cbv zeta. break_head. break_head. rewrite Htx. reflexivity.
  - (* OP_marshal_text_p *) break_head. break_head. destruct p as [j t0]. rewrite Htx. reflexivity.
Qed.

Lemma run_ext : forall A B, prims_eq A B -> forall e co n s, run A e co n s = run B e co n s.
Proof.
  intros A B H e co n. induction n as [|n IH]; intro s; cbn [run].
  - apply step_ext; assumption.
  - rewrite IH. destruct (run B e co n s); try reflexivity. apply IH.
Qed.

Theorem exec_agree : forall A B, prims_eq A B ->
  forall e co flags v, encode A e co flags v = encode B e co flags v.
Proof.
  intros A B H e co flags v. unfold encode, exec_top.
  destruct v as [[t x]|]; [|reflexivity].
  destruct (call e co state0 t (PAt t x 0) flags); try reflexivity.
  rewrite (run_ext A B H). reflexivity.
Qed.

(* ---- the two executors of this tree: where they agree, where they do not *)

(* the option bits tested per op are the same in vm.go and in the x86 assembler (generated column) *)
Theorem flag_bits_agree :
  vm_flag_tests = jit_flag_tests /\
  b_f32 prims_vm = b_f32 prims_jit /\ b_f64 prims_vm = b_f64 prims_jit /\
  b_map_write_key prims_vm = b_map_write_key prims_jit /\
  b_empty_arr prims_vm = b_empty_arr prims_jit /\ b_empty_obj prims_vm = b_empty_obj prims_jit /\
  b_recurse prims_vm = b_recurse prims_jit /\
  (* and they are the documented bits *)
  b_f32 prims_vm = BitEncodeNullForInfOrNan /\ b_f64 prims_vm = BitEncodeNullForInfOrNan /\
  b_map_write_key prims_vm = BitSortMapKeys /\ b_empty_arr prims_vm = BitNoNullSliceOrMap /\
  b_empty_obj prims_vm = BitNoNullSliceOrMap /\ b_recurse prims_vm = BitPointerValue.
Proof. repeat split; reflexivity. Qed.

(* strings: both executors call the same native quote *)
Theorem prims_agree_quote : forall s d, p_quote prims_vm s d = p_quote prims_jit s d.
Proof. reflexivity. Qed.

(* floats: agreement exactly outside +-0 *)
Theorem prims_agree_f64_nonzero : forall bits txt, is_zero_f64 bits = false -> p_f64toa prims_vm bits txt = p_f64toa prims_jit bits txt.
Proof. intros bits txt H. cbn. rewrite H. reflexivity. Qed.
Theorem prims_agree_f32_nonzero : forall bits txt, is_zero_f32 bits = false -> p_f32toa prims_vm bits txt = p_f32toa prims_jit bits txt.
Proof. intros bits txt H. cbn. rewrite H. reflexivity. Qed.

(* -0.0: the interpreter prints 0, the JIT prints -0 (like encoding/json) *)
Definition negzero64 : val := VFloat (2 ^ 63) (Some [45; 48]%N).
Definition negzero32 : val := VFloat (2 ^ 31) (Some [45; 48]%N).
Theorem f64_zero_refuted :
  encode prims_vm [] default_copts 39 (Some (TPrim KFloat64, negzero64)) = Done [48%N] /\
  encode prims_jit [] default_copts 39 (Some (TPrim KFloat64, negzero64)) = Done [45; 48]%N /\
  encode prims_vm [] default_copts 39 (Some (TPrim KFloat32, negzero32)) = Done [48%N] /\
  encode prims_jit [] default_copts 39 (Some (TPrim KFloat32, negzero32)) = Done [45; 48]%N.
Proof. repeat split; vm_compute; reflexivity. Qed.

(* the state stack: Stack.Push admits MaxStack frames, save_state one less *)
Theorem stack_bound_refuted : p_stack prims_vm = 4096%N /\ p_stack prims_jit = 4095%N.
Proof. split; reflexivity. Qed.
