(* ------------------------------------------------------------------------------------------------
   MapSort.v - faithful Gallina model of /repo/internal/encoder/alg/sort.go (the map-key sorter
   used by alg/mapiter.go IteratorStart when SortMapKeys is set) and the proof that it sorts.

   Go slices of _MapPair{k string; v unsafe.Pointer; m [32]byte} are modelled as `list pair`
   (pair = key bytes * value); an in-place function on a (sub-)slice is modelled as a function
   returning the new content of that (sub-)slice.  Names and control flow follow sort.go.
   Loops are structurally recursive functions on an explicit counter; where the counter is fuel
   the fuel is proved sufficient (the specs below hold for the definitions as written).

   radixQsort needs NO fuel: `maxDepth--` is executed in every iteration of `for len(kvs) > 11`
   before any recursive call and before the next iteration, so every recursive call and every
   next iteration (= tail call, this is exactly the tail-call elimination the Go comment
   describes) receives maxDepth-1; with maxDepth = 0 the function leaves through heapSort.
   Hence radixQsort is structurally recursive on maxDepth.
   ------------------------------------------------------------------------------------------------ *)
From Coq Require Import List NArith ZArith Bool Lia Permutation Sorted Arith ZifyNat.
Import ListNotations.
Local Open Scope nat_scope.

Section MapSort.
  Context {A : Type}.                      (* the value pointer of a _MapPair; swapped with the key *)

  Definition pair := (list N * A)%type.

  (* ---------------------------------------------------------------- byteAt / lessFrom / string < *)

  (* func byteAt(b string, p int) int { if p < len(b) { return int(b[p]) }; return -1 } *)
  Definition byteAt (b : list N) (p : nat) : Z :=
    if p <? length b then Z.of_N (nth p b 0%N) else (-1)%Z.

  (* the loop `for i := d; i < l; i++ { if a[i] == b[i] { continue }; return a[i] < b[i] }`
     followed by `return len(a) < len(b)`;  fuel = number of iterations still possible *)
  Fixpoint lessFrom_loop (fuel : nat) (a b : list N) (l i : nat) : bool :=
    match fuel with
    | 0 => length a <? length b
    | S fuel =>
        if i <? l then
          if N.eqb (nth i a 0%N) (nth i b 0%N) then lessFrom_loop fuel a b l (S i)
          else N.ltb (nth i a 0%N) (nth i b 0%N)
        else length a <? length b
    end.

  Definition lessFrom (a b : list N) (d : nat) : bool :=
    let l := length a in
    let l := if length b <? l then length b else l in      (* if l > len(b) { l = len(b) } *)
    lessFrom_loop (l - d) a b l d.

  (* Go's built-in `<` on strings: bytewise lexicographic, a proper prefix is smaller *)
  Fixpoint str_lt (a b : list N) : bool :=
    match a, b with
    | _, [] => false
    | [], _ :: _ => true
    | x :: a', y :: b' => if N.ltb x y then true else if N.eqb x y then str_lt a' b' else false
    end.

  (* ---------------------------------------------------------------- slice access, swap *)

  (* kvs[i].k  (index out of range panics in Go; never happens on the paths below) *)
  Definition keyAt (kvs : list pair) (i : nat) : list N :=
    match nth_error kvs i with Some kv => fst kv | None => [] end.

  (* kvs[i] = x *)
  Fixpoint upd (kvs : list pair) (i : nat) (x : pair) : list pair :=
    match kvs, i with
    | [], _ => []
    | _ :: t, 0 => x :: t
    | h :: t, S i => h :: upd t i x
    end.

  (* func swap(kvs []_MapPair, a, b int): exchanges k and v of the two entries *)
  Definition swap (kvs : list pair) (a b : nat) : list pair :=
    match nth_error kvs a, nth_error kvs b with
    | Some x, Some y => upd (upd kvs a y) b x
    | _, _ => kvs
    end.

  (* kvs[lo:hi] *)
  Definition slice (kvs : list pair) (lo hi : nat) : list pair := firstn (hi - lo) (skipn lo kvs).

  (* ---------------------------------------------------------------- medianThree/maxThree/maxDepth *)

  Definition medianThree (i j k : Z) : Z :=
    let '(i, j) := if (i >? j)%Z then (j, i) else (i, j) in
    if (k <? i)%Z then i else if (k >? j)%Z then j else k.

  Definition maxThree (i j k : nat) : nat :=
    let max := i in
    let max := if max <? j then j else max in
    let max := if max <? k then k else max in
    max.

  (* for i := n; i > 0; i >>= 1 { depth++ }   (fuel n suffices: i > 0 -> i/2 < i) *)
  Fixpoint maxDepth_loop (fuel i depth : nat) : nat :=
    match fuel with
    | 0 => depth
    | S fuel => if 0 <? i then maxDepth_loop fuel (i / 2) (S depth) else depth
    end.

  Definition maxDepth (n : nat) : nat := maxDepth_loop n n 0 * 2.

  (* ---------------------------------------------------------------- pivot *)

  Definition pivot (kvs : list pair) (d : nat) : Z :=
    let n := length kvs in
    let m := n / 2 in                                                   (* len(kvs) >> 1 *)
    if 40 <? n then
      let t := n / 8 in
      medianThree
        (medianThree (byteAt (keyAt kvs 0) d) (byteAt (keyAt kvs t) d) (byteAt (keyAt kvs (2 * t)) d))
        (medianThree (byteAt (keyAt kvs m) d) (byteAt (keyAt kvs (m - t)) d) (byteAt (keyAt kvs (m + t)) d))
        (medianThree (byteAt (keyAt kvs (n - 1)) d)
                     (byteAt (keyAt kvs (n - 1 - t)) d)
                     (byteAt (keyAt kvs (n - 1 - 2 * t)) d))
    else
      medianThree (byteAt (keyAt kvs 0) d) (byteAt (keyAt kvs m) d) (byteAt (keyAt kvs (n - 1)) d).

  (* ---------------------------------------------------------------- insertRadixSort *)

  (* for j := i; j > 0 && lessFrom(kvs[j].k, kvs[j-1].k, d); j-- { swap(kvs, j, j-1) } *)
  Fixpoint insertInner (kvs : list pair) (d j : nat) : list pair :=
    match j with
    | 0 => kvs
    | S j' =>
        if lessFrom (keyAt kvs j) (keyAt kvs j') d then insertInner (swap kvs j j') d j' else kvs
    end.

  (* for i := 1; i < len(kvs); i++ { inner }     fuel >= len(kvs) - i *)
  Fixpoint insertOuter (fuel : nat) (kvs : list pair) (d i : nat) : list pair :=
    match fuel with
    | 0 => kvs
    | S fuel => if i <? length kvs then insertOuter fuel (insertInner kvs d i) d (S i) else kvs
    end.

  Definition insertRadixSort (kvs : list pair) (d : nat) : list pair :=
    insertOuter (length kvs) kvs d 1.

  (* ---------------------------------------------------------------- siftDown / heapSort *)

  (* the `for { ... }` of siftDown; root strictly increases, fuel >= hi - root *)
  Fixpoint siftDown_loop (fuel : nat) (kvs : list pair) (root hi first : nat) : list pair :=
    match fuel with
    | 0 => kvs
    | S fuel =>
        let child := 2 * root + 1 in
        if hi <=? child then kvs                                                    (* break *)
        else
          let child :=
            if (child + 1 <? hi) && str_lt (keyAt kvs (first + child)) (keyAt kvs (first + child + 1))
            then child + 1 else child in
          if negb (str_lt (keyAt kvs (first + root)) (keyAt kvs (first + child)))  (* k[root] >= k[child] *)
          then kvs                                                                  (* return *)
          else siftDown_loop fuel (swap kvs (first + root) (first + child)) child hi first
    end.

  Definition siftDown (kvs : list pair) (lo hi first : nat) : list pair :=
    siftDown_loop hi kvs lo hi first.

  (* for i := (hi - 1) / 2; i >= 0; i-- { siftDown(kvs, i, hi, first) }
     (Go: (0-1)/2 = 0 by truncation, nat: (0-1)/2 = 0 as well) *)
  Fixpoint heapBuild (i : nat) (kvs : list pair) (hi first : nat) : list pair :=
    let kvs := siftDown kvs i hi first in
    match i with
    | 0 => kvs
    | S i' => heapBuild i' kvs hi first
    end.

  (* for i := hi - 1; i >= 0; i-- { swap(kvs, first, first+i); siftDown(kvs, lo, i, first) }
     n = i + 1 *)
  Fixpoint heapPop (n : nat) (kvs : list pair) (lo first : nat) : list pair :=
    match n with
    | 0 => kvs
    | S i =>
        let kvs := swap kvs first (first + i) in
        let kvs := siftDown kvs lo i first in
        heapPop i kvs lo first
    end.

  Definition heapSort (kvs : list pair) (a b : nat) : list pair :=
    let first := a in
    let lo := 0 in
    let hi := b - a in
    let kvs := heapBuild ((hi - 1) / 2) kvs hi first in
    heapPop hi kvs lo first.

  (* ---------------------------------------------------------------- radixQsort *)

  (* the inner loop `for i < gt { ... }` of radixQsort; returns (kvs, lt, gt); fuel >= gt - i *)
  Fixpoint partLoop (fuel : nat) (kvs : list pair) (d : nat) (p : Z) (lt i gt : nat)
    : list pair * nat * nat :=
    match fuel with
    | 0 => (kvs, lt, gt)
    | S fuel =>
        if i <? gt then
          let c := byteAt (keyAt kvs i) d in
          if (c <? p)%Z then partLoop fuel (swap kvs lt i) d p (S lt) (S i) gt
          else if (c >? p)%Z then
                 let gt := gt - 1 in
                 partLoop fuel (swap kvs i gt) d p lt i gt
               else partLoop fuel kvs d p lt (S i) gt
        else (kvs, lt, gt)
    end.

  (* One unfolding of the body = one iteration of `for len(kvs) > 11`.  A call written
     `radixQsort X d' maxDepth` on the part the Go code assigns to `kvs` (`kvs = kvs[..]`) is the
     next loop iteration; the other calls are the Go recursive calls.  The parts are disjoint
     sub-slices, the result of the slice is their concatenation. *)
  Fixpoint radixQsort (kvs : list pair) (d maxDepth : nat) {struct maxDepth} : list pair :=
    if 11 <? length kvs then
      match maxDepth with
      | 0 => heapSort kvs 0 (length kvs)
      | S maxDepth =>                                                        (* maxDepth-- *)
          let p := pivot kvs d in
          let '(kvs, lt, gt) := partLoop (length kvs) kvs d p 0 0 (length kvs) in
          let n := length kvs in
          if (p =? -1)%Z then
            if n - gt <? lt then
              let r_hi := radixQsort (skipn gt kvs) d maxDepth in            (* recursive call *)
              let r_lo := radixQsort (firstn lt kvs) d maxDepth in           (* kvs = kvs[:lt] *)
              r_lo ++ slice kvs lt gt ++ r_hi
            else
              let r_lo := radixQsort (firstn lt kvs) d maxDepth in           (* recursive call *)
              let r_hi := radixQsort (skipn gt kvs) d maxDepth in            (* kvs = kvs[gt:] *)
              r_lo ++ slice kvs lt gt ++ r_hi
          else
            let ml := maxThree lt (gt - lt) (n - gt) in
            if ml =? lt then
              let r_mid := radixQsort (slice kvs lt gt) (d + 1) maxDepth in  (* recursive call *)
              let r_hi := radixQsort (skipn gt kvs) d maxDepth in            (* recursive call *)
              let r_lo := radixQsort (firstn lt kvs) d maxDepth in           (* kvs = kvs[:lt] *)
              r_lo ++ r_mid ++ r_hi
            else if ml =? gt - lt then
              let r_lo := radixQsort (firstn lt kvs) d maxDepth in           (* recursive call *)
              let r_hi := radixQsort (skipn gt kvs) d maxDepth in            (* recursive call *)
              let r_mid := radixQsort (slice kvs lt gt) (d + 1) maxDepth in  (* kvs = kvs[lt:gt]; d += 1 *)
              r_lo ++ r_mid ++ r_hi
            else
              let r_lo := radixQsort (firstn lt kvs) d maxDepth in           (* recursive call *)
              let r_mid := radixQsort (slice kvs lt gt) (d + 1) maxDepth in  (* recursive call *)
              let r_hi := radixQsort (skipn gt kvs) d maxDepth in            (* kvs = kvs[gt:] *)
              r_lo ++ r_mid ++ r_hi
      end
    else insertRadixSort kvs d.

  (* alg/mapiter.go IteratorStart: if count > 1 { radixQsort(it.data(), 0, maxDepth(it.kv.Len)) } *)
  Definition sort_pairs (kvs : list pair) : list pair :=
    if Nat.ltb 1 (length kvs) then radixQsort kvs 0 (maxDepth (length kvs)) else kvs.

  (* ================================================================================================
     PROOFS
     ================================================================================================ *)

  (* ---------------------------------------------------------------- order on keys *)

  Definition str_le (a b : list N) : Prop := str_lt b a = false.

  Lemma str_lt_cons x a y b :
    str_lt (x :: a) (y :: b) = if N.ltb x y then true else if N.eqb x y then str_lt a b else false.
  Proof. reflexivity. Qed.

  Lemma str_lt_cons_same x a b : str_lt (x :: a) (x :: b) = str_lt a b.
  Proof. rewrite str_lt_cons, N.ltb_irrefl, N.eqb_refl. reflexivity. Qed.

  Ltac ncases :=
    repeat match goal with
      | H : context [N.ltb ?x ?y] |- _ => destruct (N.ltb_spec x y)
      | |- context [N.ltb ?x ?y] => destruct (N.ltb_spec x y)
      | H : context [N.eqb ?x ?y] |- _ => destruct (N.eqb_spec x y)
      | |- context [N.eqb ?x ?y] => destruct (N.eqb_spec x y)
      end.

  Lemma str_lt_irrefl a : str_lt a a = false.
  Proof. induction a as [|x a IH]; [reflexivity|]. rewrite str_lt_cons_same. exact IH. Qed.

  Lemma str_lt_asym a : forall b, str_lt a b = true -> str_lt b a = false.
  Proof.
    induction a as [|x a IH]; intros [|y b] H; try reflexivity; try discriminate.
    rewrite str_lt_cons in *. ncases; try discriminate; try reflexivity; try lia.
    subst. apply IH. assumption.
  Qed.

  Lemma str_lt_trans a : forall b c, str_lt a b = true -> str_lt b c = true -> str_lt a c = true.
  Proof.
    induction a as [|x a IH]; intros [|y b] [|z c] H1 H2; try reflexivity; try discriminate.
    rewrite str_lt_cons in *. ncases; try discriminate; try reflexivity; try lia.
    subst. eapply IH; eassumption.
  Qed.

  Lemma str_lt_connex a : forall b, str_lt a b = false -> str_lt b a = false -> a = b.
  Proof.
    induction a as [|x a IH]; intros [|y b] H1 H2; try reflexivity; try discriminate.
    rewrite str_lt_cons in *. ncases; try discriminate; try lia.
    subst. f_equal. apply IH; assumption.
  Qed.

  Lemma str_le_refl a : str_le a a.
  Proof. apply str_lt_irrefl. Qed.

  Lemma str_le_total a b : str_le a b \/ str_le b a.
  Proof.
    unfold str_le. destruct (str_lt b a) eqn:E; [right|left; reflexivity].
    apply str_lt_asym. exact E.
  Qed.

  Lemma str_le_antisym a b : str_le a b -> str_le b a -> a = b.
  Proof. unfold str_le. intros H1 H2. apply str_lt_connex; assumption. Qed.

  Lemma str_le_trans a : forall b c, str_le a b -> str_le b c -> str_le a c.
  Proof.
    unfold str_le.
    induction a as [|x a IH]; intros [|y b] [|z c] H1 H2; try reflexivity; try discriminate.
    rewrite str_lt_cons in *. ncases; try discriminate; try reflexivity; try lia.
    subst. eapply IH; eassumption.
  Qed.

  Lemma str_lt_le a b : str_lt a b = true -> str_le a b.
  Proof. apply str_lt_asym. Qed.

  Lemma str_le_of_eq a b : a = b -> str_le a b.
  Proof. intros ->. apply str_le_refl. Qed.

  (* ---------------------------------------------------------------- byteAt / lessFrom vs str_lt *)

  Lemma byteAt_nil p : byteAt [] p = (-1)%Z.
  Proof. reflexivity. Qed.

  Lemma byteAt_cons_0 x a : byteAt (x :: a) 0 = Z.of_N x.
  Proof. reflexivity. Qed.

  Lemma byteAt_cons_S x a p : byteAt (x :: a) (S p) = byteAt a p.
  Proof. reflexivity. Qed.

  Lemma byteAt_lt_str_lt d : forall a b,
      firstn d a = firstn d b -> (byteAt a d < byteAt b d)%Z -> str_lt a b = true.
  Proof.
    induction d as [|d IH]; intros [|x a] [|y b] Hf Hlt;
      rewrite ?byteAt_nil, ?byteAt_cons_0, ?byteAt_cons_S in Hlt; try reflexivity; try lia;
      try discriminate.
    - rewrite str_lt_cons. destruct (N.ltb_spec x y); [reflexivity|lia].
    - cbn [firstn] in Hf. injection Hf as -> Hf. rewrite str_lt_cons_same. apply IH; assumption.
  Qed.

  Lemma byteAt_eq_firstn_S d : forall a b,
      firstn d a = firstn d b -> byteAt a d = byteAt b d -> firstn (S d) a = firstn (S d) b.
  Proof.
    induction d as [|d IH]; intros [|x a] [|y b] Hf He;
      rewrite ?byteAt_nil, ?byteAt_cons_0, ?byteAt_cons_S in He; try reflexivity; try lia;
      try discriminate.
    - apply N2Z.inj in He. subst. reflexivity.
    - cbn [firstn] in Hf. injection Hf as -> Hf. change (y :: firstn (S d) a = y :: firstn (S d) b).
      f_equal. apply IH; assumption.
  Qed.

  Lemma byteAt_m1_eq d : forall a b,
      firstn d a = firstn d b -> byteAt a d = (-1)%Z -> byteAt b d = (-1)%Z -> a = b.
  Proof.
    induction d as [|d IH]; intros [|x a] [|y b] Hf Ha Hb;
      rewrite ?byteAt_nil, ?byteAt_cons_0, ?byteAt_cons_S in *; try reflexivity; try lia;
      try discriminate.
    cbn [firstn] in Hf. injection Hf as -> Hf. f_equal. apply IH; assumption.
  Qed.

  Lemma prefix_short_str_lt i : forall a b,
      firstn i a = firstn i b -> Nat.min (length a) (length b) <= i ->
      str_lt a b = (length a <? length b).
  Proof.
    induction i as [|i IH]; intros [|x a] [|y b] Hf Hm; cbn [length] in *; try reflexivity;
      try discriminate; try lia.
    cbn [firstn] in Hf. injection Hf as -> Hf. rewrite str_lt_cons_same.
    rewrite IH by (assumption || lia). reflexivity.
  Qed.

  Lemma prefix_diff_str_lt i : forall a b,
      firstn i a = firstn i b -> i < length a -> i < length b ->
      nth i a 0%N <> nth i b 0%N -> str_lt a b = N.ltb (nth i a 0%N) (nth i b 0%N).
  Proof.
    induction i as [|i IH]; intros [|x a] [|y b] Hf Ha Hb Hn; cbn [length nth] in *; try lia.
    - rewrite str_lt_cons. destruct (N.ltb_spec x y); [reflexivity|].
      destruct (N.eqb_spec x y); [contradiction|reflexivity].
    - cbn [firstn] in Hf. injection Hf as -> Hf. rewrite str_lt_cons_same.
      apply IH; (assumption || lia).
  Qed.

  Lemma prefix_extend i : forall a b,
      firstn i a = firstn i b -> i < length a -> i < length b ->
      nth i a 0%N = nth i b 0%N -> firstn (S i) a = firstn (S i) b.
  Proof.
    induction i as [|i IH]; intros [|x a] [|y b] Hf Ha Hb Hn; cbn [length nth] in *; try lia.
    - subst. reflexivity.
    - cbn [firstn] in Hf. injection Hf as -> Hf. change (y :: firstn (S i) a = y :: firstn (S i) b).
      f_equal. apply IH; (assumption || lia).
  Qed.

  Lemma lessFrom_loop_spec a b l : l = Nat.min (length a) (length b) ->
    forall fuel i, l - i <= fuel -> firstn i a = firstn i b ->
      lessFrom_loop fuel a b l i = str_lt a b.
  Proof.
    intros Hl. induction fuel as [|fuel IH]; intros i Hfu Hf; cbn [lessFrom_loop].
    - symmetry. apply (prefix_short_str_lt i); [assumption|lia].
    - destruct (Nat.ltb_spec i l) as [Hi|Hi].
      + destruct (N.eqb_spec (nth i a 0%N) (nth i b 0%N)) as [E|E].
        * apply IH; [lia|]. apply prefix_extend; (assumption || lia).
        * symmetry. apply prefix_diff_str_lt; (assumption || lia).
      + symmetry. apply (prefix_short_str_lt i); [assumption|lia].
  Qed.

  (* lessFrom from position d is Go's `<` on keys that share their first d bytes *)
  Lemma lessFrom_str_lt a b d : firstn d a = firstn d b -> lessFrom a b d = str_lt a b.
  Proof.
    intros Hf. unfold lessFrom. apply lessFrom_loop_spec; [|lia|assumption].
    destruct (Nat.ltb_spec (length b) (length a)); lia.
  Qed.

  (* ---------------------------------------------------------------- upd / swap / keyAt *)

  Lemma length_upd l : forall i x, length (upd l i x) = length l.
  Proof. induction l as [|h t IH]; intros [|i] x; cbn [upd length]; auto. Qed.

  Lemma nth_error_upd l : forall i x j,
      nth_error (upd l i x) j = if (j =? i) && (i <? length l) then Some x else nth_error l j.
  Proof.
    induction l as [|h t IH]; intros [|i] x [|j]; cbn [upd nth_error length]; try reflexivity.
    - rewrite Bool.andb_false_r. reflexivity.
    - rewrite IH. reflexivity.
  Qed.

  Lemma upd_perm l : forall i x y, nth_error l i = Some x -> Permutation (y :: l) (x :: upd l i y).
  Proof.
    induction l as [|h t IH]; intros [|i] x y H; cbn [nth_error upd] in *; try discriminate.
    - injection H as ->. apply perm_swap.
    - eapply perm_trans; [apply perm_swap|]. eapply perm_trans; [|apply perm_swap].
      apply perm_skip. apply IH. assumption.
  Qed.

  Lemma length_swap l a b : length (swap l a b) = length l.
  Proof.
    unfold swap. destruct (nth_error l a), (nth_error l b); try reflexivity.
    rewrite !length_upd. reflexivity.
  Qed.

  Lemma nth_error_swap l a b j : a < length l -> b < length l ->
    nth_error (swap l a b) j =
      if j =? b then nth_error l a else if j =? a then nth_error l b else nth_error l j.
  Proof.
    intros Ha Hb. unfold swap.
    destruct (nth_error l a) as [x|] eqn:Ea; [|apply nth_error_None in Ea; lia].
    destruct (nth_error l b) as [y|] eqn:Eb; [|apply nth_error_None in Eb; lia].
    rewrite !nth_error_upd, length_upd.
    destruct (Nat.ltb_spec a (length l)); [|lia]. destruct (Nat.ltb_spec b (length l)); [|lia].
    rewrite !Bool.andb_true_r.
    destruct (Nat.eqb_spec j b); [reflexivity|]. destruct (Nat.eqb_spec j a); reflexivity.
  Qed.

  Lemma swap_perm l a b : Permutation l (swap l a b).
  Proof.
    unfold swap.
    destruct (nth_error l a) as [x|] eqn:Ea; [|apply Permutation_refl].
    destruct (nth_error l b) as [y|] eqn:Eb; [|apply Permutation_refl].
    apply (Permutation_cons_inv (a := y)).
    eapply perm_trans; [apply (upd_perm l a x y Ea)|].
    apply (upd_perm (upd l a y) b y x).
    rewrite nth_error_upd.
    assert (a < length l) by (apply nth_error_Some; congruence).
    destruct (Nat.ltb_spec a (length l)); [|lia]. rewrite Bool.andb_true_r.
    destruct (Nat.eqb_spec b a); [reflexivity|assumption].
  Qed.

  Lemma keyAt_swap l a b j : a < length l -> b < length l ->
    keyAt (swap l a b) j = if j =? b then keyAt l a else if j =? a then keyAt l b else keyAt l j.
  Proof.
    intros Ha Hb. unfold keyAt. rewrite nth_error_swap by assumption.
    destruct (j =? b); [reflexivity|]. destruct (j =? a); reflexivity.
  Qed.

  Lemma keyAt_nth_error l i x : nth_error l i = Some x -> keyAt l i = fst x.
  Proof. unfold keyAt. intros ->. reflexivity. Qed.

  Lemma keyAt_cons_0 x l : keyAt (x :: l) 0 = fst x.
  Proof. reflexivity. Qed.

  Lemma keyAt_cons_S x l i : keyAt (x :: l) (S i) = keyAt l i.
  Proof. reflexivity. Qed.

  Lemma In_keyAt l x : In x l -> exists i, i < length l /\ keyAt l i = fst x.
  Proof.
    intros H. apply In_nth_error in H. destruct H as [i H]. exists i. split.
    - apply nth_error_Some. congruence.
    - apply keyAt_nth_error. assumption.
  Qed.

  Lemma keyAt_In l i : i < length l -> exists x, In x l /\ keyAt l i = fst x.
  Proof.
    intros H. destruct (nth_error l i) as [x|] eqn:E; [|apply nth_error_None in E; lia].
    exists x. split; [eapply nth_error_In; eassumption|apply keyAt_nth_error; assumption].
  Qed.

  Lemma keyAt_firstn n : forall l i, i < n -> keyAt (firstn n l) i = keyAt l i.
  Proof.
    induction n as [|n IH]; intros [|x l] [|i] H; try lia; try reflexivity.
    cbn [firstn]. rewrite !keyAt_cons_S. apply IH. lia.
  Qed.

  Lemma keyAt_skipn n : forall l i, keyAt (skipn n l) i = keyAt l (n + i).
  Proof.
    induction n as [|n IH]; intros [|x l] i; try reflexivity.
    - cbn [skipn]. unfold keyAt. destruct i; reflexivity.
    - cbn [skipn]. rewrite IH. reflexivity.
  Qed.

  Lemma skipn_skipn' n : forall m (l : list pair), skipn m (skipn n l) = skipn (n + m) l.
  Proof.
    induction n as [|n IH]; intros m [|x l]; cbn [skipn Nat.add]; try reflexivity.
    - destruct m; reflexivity.
    - apply IH.
  Qed.

  Lemma slice_decomp l lt gt : lt <= gt -> l = firstn lt l ++ slice l lt gt ++ skipn gt l.
  Proof.
    intros H. unfold slice.
    rewrite <- (firstn_skipn lt l) at 1. f_equal.
    rewrite <- (firstn_skipn (gt - lt) (skipn lt l)) at 1. f_equal.
    rewrite skipn_skipn'. f_equal. lia.
  Qed.

  Lemma Forall_idx (P : list N -> Prop) l :
    (forall j, j < length l -> P (keyAt l j)) -> Forall (fun x => P (fst x)) l.
  Proof.
    induction l as [|x l IH]; intros H; constructor.
    - apply (H 0). cbn [length]. lia.
    - apply IH. intros j Hj. apply (H (S j)). cbn [length]. lia.
  Qed.

  Lemma sorted_idx l :
    (forall a b, a < b -> b < length l -> str_le (keyAt l a) (keyAt l b)) ->
    StronglySorted (fun x y => str_le (fst x) (fst y)) l.
  Proof.
    induction l as [|x l IH]; intros H; constructor.
    - apply IH. intros a b Hab Hb. apply (H (S a) (S b)); cbn [length]; lia.
    - apply (Forall_idx (fun k => str_le (fst x) k)). intros j Hj.
      apply (H 0 (S j)); cbn [length]; lia.
  Qed.

  (* ---------------------------------------------------------------- the 3-way partition loop *)

  Ltac eqb_cases :=
    repeat match goal with
      | |- context [Nat.eqb ?a ?b] => destruct (Nat.eqb_spec a b)
      end.

  Definition part_inv (kvs : list pair) (d : nat) (p : Z) (lt i gt : nat) : Prop :=
    lt <= i /\ i <= gt /\ gt <= length kvs /\
    (forall j, j < lt -> (byteAt (keyAt kvs j) d < p)%Z) /\
    (forall j, lt <= j -> j < i -> byteAt (keyAt kvs j) d = p) /\
    (forall j, gt <= j -> j < length kvs -> (byteAt (keyAt kvs j) d > p)%Z).

  Lemma partLoop_spec d p : forall fuel kvs lt i gt kvs' lt' gt',
      partLoop fuel kvs d p lt i gt = (kvs', lt', gt') ->
      gt - i <= fuel -> part_inv kvs d p lt i gt ->
      Permutation kvs kvs' /\ part_inv kvs' d p lt' gt' gt'.
  Proof.
    induction fuel as [|fuel IH]; intros kvs lt i gt kvs' lt' gt' H Hfu Hinv; cbn [partLoop] in H.
    - injection H as <- <- <-. split; [apply Permutation_refl|].
      destruct Hinv as (H1 & H2 & H3 & H4 & H5 & H6).
      assert (i = gt) by lia. subst i. repeat split; auto.
    - destruct Hinv as (H1 & H2 & H3 & H4 & H5 & H6).
      destruct (Nat.ltb_spec i gt) as [Hi|Hi].
      + destruct (Z.ltb_spec (byteAt (keyAt kvs i) d) p) as [Hc|Hc].
        { apply IH in H; [|lia|].
          - destruct H as [Hp Hr]. split; [|exact Hr].
            eapply perm_trans; [apply swap_perm|exact Hp].
          - unfold part_inv. rewrite length_swap.
            repeat split; try lia; intros j Hj1; try intros Hj2;
              rewrite keyAt_swap by lia; eqb_cases; subst;
              first [ lia | assumption | apply H4; lia | apply H5; lia | apply H6; lia
                    | idtac ].
            replace lt with i by lia. assumption. }
        rewrite Z.gtb_ltb in H.
        destruct (Z.ltb_spec p (byteAt (keyAt kvs i) d)) as [Hc2|Hc2].
        { apply IH in H; [|lia|].
          - destruct H as [Hp Hr]. split; [|exact Hr].
            eapply perm_trans; [apply swap_perm|exact Hp].
          - unfold part_inv. rewrite length_swap.
            repeat split; try lia; intros j Hj1; try intros Hj2;
              rewrite keyAt_swap by lia; eqb_cases; subst;
              first [ lia | assumption | apply H4; lia | apply H5; lia | apply H6; lia
                    | idtac ]. }
        { apply IH in H; [assumption|lia|].
          unfold part_inv.
          repeat split; try lia; try assumption. intros j Hj1 Hj2.
          destruct (Nat.eq_dec j i) as [->|Hne]; [lia|apply H5; lia]. }
      + injection H as <- <- <-. split; [apply Permutation_refl|].
        assert (i = gt) by lia. subst i. repeat split; auto.
  Qed.

  (* ---------------------------------------------------------------- precondition on the radix *)

  (* all keys share their first d bytes (keys shorter than d are then all equal, and byteAt
     gives -1 for them); trivially true for d = 0 *)
  Definition agree_upto (d : nat) (kvs : list pair) : Prop :=
    forall x y, In x kvs -> In y kvs -> firstn d (fst x) = firstn d (fst y).

  Lemma agree_upto_0 kvs : agree_upto 0 kvs.
  Proof. intros x y _ _. reflexivity. Qed.

  Lemma agree_upto_perm d l l' : Permutation l l' -> agree_upto d l -> agree_upto d l'.
  Proof.
    intros Hp H x y Hx Hy. apply H; eapply Permutation_in; try eassumption;
      apply Permutation_sym; assumption.
  Qed.

  Lemma agree_upto_incl d l l' : incl l' l -> agree_upto d l -> agree_upto d l'.
  Proof. intros Hi H x y Hx Hy. apply H; apply Hi; assumption. Qed.

  Lemma agree_keyAt d l i j : agree_upto d l -> i < length l -> j < length l ->
    firstn d (keyAt l i) = firstn d (keyAt l j).
  Proof.
    intros H Hi Hj. destruct (keyAt_In l i Hi) as (x & Hx & ->).
    destruct (keyAt_In l j Hj) as (y & Hy & ->). apply H; assumption.
  Qed.

  Definition sorted (kvs : list pair) : Prop :=
    StronglySorted (fun x y => str_le (fst x) (fst y)) kvs.

  (* ---------------------------------------------------------------- insertRadixSort sorts *)

  Lemma insertInner_spec d : forall j l i, j <= i -> i < length l -> agree_upto d l ->
      (forall a b, a < b -> b <= i -> a <> j -> b <> j -> str_le (keyAt l a) (keyAt l b)) ->
      (forall b, j < b -> b <= i -> str_le (keyAt l j) (keyAt l b)) ->
      Permutation l (insertInner l d j) /\
      (forall a b, a < b -> b <= i ->
                   str_le (keyAt (insertInner l d j) a) (keyAt (insertInner l d j) b)).
  Proof.
    induction j as [|j IH]; intros l i Hji Hi Hag H1 H2; cbn [insertInner].
    - split; [apply Permutation_refl|]. intros a b Hab Hb.
      destruct (Nat.eq_dec a 0) as [->|Ha]; [apply H2; lia|apply H1; lia].
    - rewrite lessFrom_str_lt by (apply agree_keyAt; (assumption || lia)).
      destruct (str_lt (keyAt l (S j)) (keyAt l j)) eqn:E.
      + destruct (IH (swap l (S j) j) i) as [Hp Hs].
        * lia.
        * rewrite length_swap. assumption.
        * eapply agree_upto_perm; [apply swap_perm|assumption].
        * intros a b Hab Hb Haj Hbj. rewrite !keyAt_swap by lia. eqb_cases; subst; try lia;
            apply H1; lia.
        * intros b Hjb Hb. rewrite !keyAt_swap by lia. eqb_cases; subst; try lia.
          -- apply str_lt_le. assumption.
          -- apply H2; lia.
        * split; [|exact Hs]. eapply perm_trans; [apply swap_perm|exact Hp].
      + split; [apply Permutation_refl|]. intros a b Hab Hb.
        destruct (Nat.eq_dec b (S j)) as [->|Hbj].
        * destruct (Nat.eq_dec a j) as [->|Haj]; [exact E|].
          eapply str_le_trans; [apply (H1 a j); lia|exact E].
        * destruct (Nat.eq_dec a (S j)) as [->|Haj]; [apply H2; lia|apply H1; lia].
  Qed.

  Lemma insertOuter_spec d : forall fuel l i, length l - i <= fuel -> agree_upto d l ->
      (forall a b, a < b -> b < i -> str_le (keyAt l a) (keyAt l b)) ->
      Permutation l (insertOuter fuel l d i) /\
      (forall a b, a < b -> b < length l ->
                   str_le (keyAt (insertOuter fuel l d i) a) (keyAt (insertOuter fuel l d i) b)).
  Proof.
    induction fuel as [|fuel IH]; intros l i Hfu Hag Hs; cbn [insertOuter].
    - split; [apply Permutation_refl|]. intros a b Hab Hb. apply Hs; lia.
    - destruct (Nat.ltb_spec i (length l)) as [Hi|Hi].
      + destruct (insertInner_spec d i l i) as [Hp1 Hs1]; try lia; try assumption.
        { intros a b Hab Hb Ha Hb'. apply Hs; lia. }
        pose proof (Permutation_length Hp1) as Hlen.
        destruct (IH (insertInner l d i) (S i)) as [Hp2 Hs2].
        * lia.
        * eapply agree_upto_perm; eassumption.
        * intros a b Hab Hb. apply Hs1; lia.
        * split; [eapply perm_trans; eassumption|]. rewrite Hlen. exact Hs2.
      + split; [apply Permutation_refl|]. intros a b Hab Hb. apply Hs; lia.
  Qed.

  Lemma insertRadixSort_spec kvs d : agree_upto d kvs ->
    Permutation kvs (insertRadixSort kvs d) /\ sorted (insertRadixSort kvs d).
  Proof.
    intros Hag. unfold insertRadixSort.
    destruct (insertOuter_spec d (length kvs) kvs 1) as [Hp Hs]; [lia|assumption|intros; lia|].
    split; [exact Hp|]. apply sorted_idx. intros a b Hab Hb. apply Hs; [assumption|].
    rewrite (Permutation_length Hp). assumption.
  Qed.

  (* ---------------------------------------------------------------- heapSort sorts *)

  (* max-heap property of kvs[first+lo .. first+hi) for all roots r >= lo *)
  Definition heap_from (l : list pair) (first lo hi : nat) : Prop :=
    forall r c, lo <= r -> c < hi -> (c = 2 * r + 1 \/ c = 2 * r + 2) ->
                str_le (keyAt l (first + c)) (keyAt l (first + r)).

  Definition sift_post (l l' : list pair) (first lo hi : nat) : Prop :=
    Permutation l l' /\ heap_from l' first lo hi /\
    (forall q, q < first + lo \/ first + hi <= q -> nth_error l' q = nth_error l q) /\
    (forall P : list N -> Prop,
        (forall j, lo <= j -> j < hi -> P (keyAt l (first + j))) ->
        forall j, lo <= j -> j < hi -> P (keyAt l' (first + j))).

  Lemma sift_done l first lo hi root :
    (forall r c, lo <= r -> r <> root -> c < hi -> (c = 2 * r + 1 \/ c = 2 * r + 2) ->
                 str_le (keyAt l (first + c)) (keyAt l (first + r))) ->
    (forall c, c < hi -> (c = 2 * root + 1 \/ c = 2 * root + 2) ->
               str_le (keyAt l (first + c)) (keyAt l (first + root))) ->
    sift_post l l first lo hi.
  Proof.
    intros S1 Hroot. unfold sift_post. split; [apply Permutation_refl|].
    split; [|split; [reflexivity|auto]].
    intros r c Hr Hc Hch. destruct (Nat.eq_dec r root) as [->|Hne]; [apply Hroot|apply S1]; assumption.
  Qed.

  Lemma siftDown_loop_S fuel kvs root hi first :
    siftDown_loop (S fuel) kvs root hi first =
      if hi <=? 2 * root + 1 then kvs
      else
        let child :=
          if (2 * root + 1 + 1 <? hi)
             && str_lt (keyAt kvs (first + (2 * root + 1))) (keyAt kvs (first + (2 * root + 1) + 1))
          then 2 * root + 1 + 1 else 2 * root + 1 in
        if negb (str_lt (keyAt kvs (first + root)) (keyAt kvs (first + child))) then kvs
        else siftDown_loop fuel (swap kvs (first + root) (first + child)) child hi first.
  Proof. reflexivity. Qed.

  Lemma siftDown_loop_spec first lo hi : forall fuel l root,
      hi - root <= fuel -> lo <= root -> first + hi <= length l ->
      (forall r c, lo <= r -> r <> root -> c < hi -> (c = 2 * r + 1 \/ c = 2 * r + 2) ->
                   str_le (keyAt l (first + c)) (keyAt l (first + r))) ->
      (forall r c, lo <= r -> (root = 2 * r + 1 \/ root = 2 * r + 2) -> c < hi ->
                   (c = 2 * root + 1 \/ c = 2 * root + 2) ->
                   str_le (keyAt l (first + c)) (keyAt l (first + r))) ->
      sift_post l (siftDown_loop fuel l root hi first) first lo hi.
  Proof.
    induction fuel as [|fuel IH]; intros l root Hfu Hlo Hlen S1 S2.
    - cbn [siftDown_loop]. apply (sift_done l first lo hi root); [assumption|]. intros; lia.
    - rewrite siftDown_loop_S.
      destruct (Nat.leb_spec hi (2 * root + 1)) as [Hbr|Hbr].
      { apply (sift_done l first lo hi root); [assumption|]. intros; lia. }
      cbv zeta.
      remember (if (2 * root + 1 + 1 <? hi)
                   && str_lt (keyAt l (first + (2 * root + 1))) (keyAt l (first + (2 * root + 1) + 1))
                then 2 * root + 1 + 1 else 2 * root + 1) as ch eqn:Ech.
      assert (Hch : (ch = 2 * root + 1 \/ ch = 2 * root + 2) /\ ch < hi /\
                    forall c, c < hi -> (c = 2 * root + 1 \/ c = 2 * root + 2) ->
                              str_le (keyAt l (first + c)) (keyAt l (first + ch))).
      { subst ch. destruct (Nat.ltb_spec (2 * root + 1 + 1) hi) as [H2|H2]; cbn [andb].
        - destruct (str_lt (keyAt l (first + (2 * root + 1))) (keyAt l (first + (2 * root + 1) + 1)))
            eqn:E.
          + split; [lia|]. split; [lia|]. intros c Hc [->| ->].
            * apply str_lt_le. replace (first + (2 * root + 1 + 1)) with (first + (2 * root + 1) + 1) by lia.
              exact E.
            * replace (2 * root + 2) with (2 * root + 1 + 1) by lia. apply str_le_refl.
          + split; [lia|]. split; [lia|]. intros c Hc [->| ->].
            * apply str_le_refl.
            * unfold str_le. replace (first + (2 * root + 2)) with (first + (2 * root + 1) + 1) by lia.
              exact E.
        - split; [lia|]. split; [lia|]. intros c Hc [->| ->]; [apply str_le_refl|lia]. }
      clear Ech. destruct Hch as (Hch1 & Hch2 & Hch3).
      destruct (str_lt (keyAt l (first + root)) (keyAt l (first + ch))) eqn:E; cbn [negb].
      + (* swap and continue *)
        destruct (IH (swap l (first + root) (first + ch)) ch) as (Hp & Hh & Hout & Hrange).
        * lia.
        * lia.
        * rewrite length_swap. assumption.
        * intros r c Hr Hne Hc Hchild. rewrite !keyAt_swap by lia. eqb_cases;
            first [ lia | apply str_lt_le; exact E | eapply S1; lia | eapply S2; lia
                  | eapply Hch3; lia ].
        * intros r c Hr Hpar Hc Hchild. rewrite !keyAt_swap by lia. eqb_cases;
            first [ lia | apply str_lt_le; exact E | eapply S1; lia | eapply S2; lia
                  | eapply Hch3; lia ].
        * unfold sift_post. split; [eapply perm_trans; [apply swap_perm|exact Hp]|].
          split; [exact Hh|]. split.
          -- intros q Hq. rewrite Hout by assumption. rewrite nth_error_swap by lia.
             eqb_cases; try lia. reflexivity.
          -- intros P HP. apply Hrange. intros j Hj1 Hj2. rewrite keyAt_swap by lia.
             eqb_cases; apply HP; lia.
      + (* k[root] >= k[child]: return *)
        apply (sift_done l first lo hi root); [assumption|]. intros c Hc Hchild.
        eapply str_le_trans; [apply Hch3; assumption|exact E].
  Qed.

  Lemma siftDown_spec l first lo hi :
    first + hi <= length l -> heap_from l first (S lo) hi ->
    sift_post l (siftDown l lo hi first) first lo hi.
  Proof.
    intros Hlen Hh. unfold siftDown. apply siftDown_loop_spec; [lia|lia|assumption| |].
    - intros r c Hr Hne Hc Hch. apply Hh; lia.
    - intros; lia.
  Qed.

  Lemma heapBuild_spec first hi : forall i l,
      first + hi <= length l -> heap_from l first (S i) hi ->
      Permutation l (heapBuild i l hi first) /\ heap_from (heapBuild i l hi first) first 0 hi /\
      (forall q, q < first \/ first + hi <= q -> nth_error (heapBuild i l hi first) q = nth_error l q).
  Proof.
    induction i as [|i IH]; intros l Hlen Hh; cbn [heapBuild];
      destruct (siftDown_spec l first _ hi Hlen Hh) as (Hp & Hh1 & Hout & _).
    - split; [exact Hp|]. split; [exact Hh1|]. intros q Hq. apply Hout. lia.
    - destruct (IH (siftDown l (S i) hi first)) as (Hp2 & Hh2 & Hout2).
      + rewrite <- (Permutation_length Hp). assumption.
      + exact Hh1.
      + split; [eapply perm_trans; eassumption|]. split; [exact Hh2|].
        intros q Hq. rewrite Hout2 by assumption. apply Hout. lia.
  Qed.

  Lemma heap_max l first n : heap_from l first 0 n ->
    forall j, j < n -> str_le (keyAt l (first + j)) (keyAt l (first + 0)).
  Proof.
    intros Hh j. induction j as [j IH] using lt_wf_ind. intros Hj.
    destruct (Nat.eq_dec j 0) as [->|Hne]; [apply str_le_refl|].
    eapply str_le_trans; [apply (Hh ((j - 1) / 2) j); lia|]. apply IH; lia.
  Qed.

  Lemma heapPop_spec first hi : forall n l,
      n <= hi -> first + hi <= length l -> heap_from l first 0 n ->
      (forall a b, n <= a -> a < b -> b < hi -> str_le (keyAt l (first + a)) (keyAt l (first + b))) ->
      (forall a b, a < n -> n <= b -> b < hi -> str_le (keyAt l (first + a)) (keyAt l (first + b))) ->
      Permutation l (heapPop n l 0 first) /\
      (forall q, q < first \/ first + hi <= q -> nth_error (heapPop n l 0 first) q = nth_error l q) /\
      (forall a b, a < b -> b < hi ->
                   str_le (keyAt (heapPop n l 0 first) (first + a)) (keyAt (heapPop n l 0 first) (first + b))).
  Proof.
    induction n as [|i IH]; intros l Hn Hlen Hh H2 H3; cbn [heapPop].
    - split; [apply Permutation_refl|]. split; [reflexivity|]. intros a b Hab Hb. apply H2; lia.
    - pose proof (heap_max l first (S i) Hh) as Hmax.
      set (l1 := swap l first (first + i)).
      assert (K1 : forall j, j < hi -> keyAt l1 (first + j) =
                     if j =? i then keyAt l (first + 0)
                     else if j =? 0 then keyAt l (first + i) else keyAt l (first + j)).
      { intros j Hj. unfold l1. rewrite keyAt_swap by lia. rewrite Nat.add_0_r.
        destruct (Nat.eqb_spec (first + j) (first + i)); destruct (Nat.eqb_spec j i); try lia;
          [reflexivity|].
        destruct (Nat.eqb_spec (first + j) first); destruct (Nat.eqb_spec j 0); try lia;
          reflexivity. }
      assert (Hlen1 : length l1 = length l) by apply length_swap.
      destruct (siftDown_spec l1 first 0 i) as (Hp2 & Hh2 & Hout2 & Hr2).
      { lia. }
      { intros r c Hr Hc Hch. rewrite !K1 by lia. eqb_cases; try lia. apply Hh; lia. }
      set (l2 := siftDown l1 0 i first) in *.
      assert (K2 : forall j, i <= j -> keyAt l2 (first + j) = keyAt l1 (first + j)).
      { intros j Hj. unfold keyAt. rewrite Hout2 by lia. reflexivity. }
      destruct (IH l2) as (Hp3 & Hout3 & Hs3).
      + lia.
      + rewrite <- (Permutation_length Hp2). lia.
      + exact Hh2.
      + intros a b Ha Hab Hb. rewrite !K2, !K1 by lia. eqb_cases;
          first [ lia | apply H2; lia | apply H3; lia ].
      + intros a b Ha Hb1 Hb2.
        apply (Hr2 (fun k => str_le k (keyAt l2 (first + b)))); [|lia|lia].
        intros j _ Hj. rewrite K2, !K1 by lia. eqb_cases;
          first [ lia | apply Hmax; lia | apply H3; lia | apply H2; lia ].
      + split; [eapply perm_trans; [apply swap_perm|]; eapply perm_trans; eassumption|].
        split; [|exact Hs3].
        intros q Hq. rewrite Hout3 by assumption. rewrite Hout2 by lia. unfold l1.
        rewrite nth_error_swap by lia. eqb_cases; try lia. reflexivity.
  Qed.

  (* heapSort(kvs, a, b) sorts kvs[a:b] (whole-key order) and leaves the rest alone *)
  Lemma heapSort_spec l a b : a <= b -> b <= length l ->
    Permutation l (heapSort l a b) /\
    (forall q, q < a \/ b <= q -> nth_error (heapSort l a b) q = nth_error l q) /\
    (forall i j, i < j -> j < b - a ->
                 str_le (keyAt (heapSort l a b) (a + i)) (keyAt (heapSort l a b) (a + j))).
  Proof.
    intros Hab Hb. unfold heapSort.
    destruct (heapBuild_spec a (b - a) ((b - a - 1) / 2) l) as (Hp1 & Hh1 & Hout1).
    { lia. }
    { intros r c Hr Hc Hch. lia. }
    destruct (heapPop_spec a (b - a) (b - a) (heapBuild ((b - a - 1) / 2) l (b - a) a))
      as (Hp2 & Hout2 & Hs2).
    { lia. }
    { rewrite <- (Permutation_length Hp1). lia. }
    { exact Hh1. }
    { intros; lia. }
    { intros; lia. }
    split; [eapply perm_trans; eassumption|]. split; [|exact Hs2].
    intros q Hq. rewrite Hout2 by lia. apply Hout1. lia.
  Qed.

  Theorem heapSort_sorted_perm kvs :
    Permutation kvs (heapSort kvs 0 (length kvs)) /\ sorted (heapSort kvs 0 (length kvs)).
  Proof.
    destruct (heapSort_spec kvs 0 (length kvs)) as (Hp & _ & Hs); [lia|lia|].
    split; [exact Hp|]. apply sorted_idx. intros a b Hab Hb.
    apply (Hs a b); [assumption|]. rewrite <- (Permutation_length Hp) in Hb. lia.
  Qed.

  (* ---------------------------------------------------------------- radixQsort sorts *)

  Lemma sorted_app l1 : forall l2, sorted l1 -> sorted l2 ->
      (forall x y, In x l1 -> In y l2 -> str_le (fst x) (fst y)) -> sorted (l1 ++ l2).
  Proof.
    unfold sorted. induction l1 as [|h t IH]; intros l2 H1 H2 Hc; [exact H2|].
    cbn [app]. inversion H1 as [|? ? Ht Hh]; subst. constructor.
    - apply IH; [assumption|assumption|]. intros x y Hx Hy. apply Hc; [right|]; assumption.
    - apply Forall_app. split; [assumption|]. apply Forall_forall. intros y Hy.
      apply Hc; [left; reflexivity|assumption].
  Qed.

  Lemma sorted_all_eq l : (forall x y, In x l -> In y l -> fst x = fst y) -> sorted l.
  Proof.
    unfold sorted. induction l as [|h t IH]; intros H; constructor.
    - apply IH. intros x y Hx Hy. apply H; right; assumption.
    - apply Forall_forall. intros y Hy. apply str_le_of_eq. apply H; [left; reflexivity|right; assumption].
  Qed.

  Lemma part_inv_Forall kvs d p lt gt : part_inv kvs d p lt gt gt ->
    Forall (fun x => (byteAt (fst x) d < p)%Z) (firstn lt kvs) /\
    Forall (fun x => byteAt (fst x) d = p) (slice kvs lt gt) /\
    Forall (fun x => (byteAt (fst x) d > p)%Z) (skipn gt kvs).
  Proof.
    intros (H1 & H2 & H3 & H4 & H5 & H6). split; [|split].
    - apply (Forall_idx (fun k => (byteAt k d < p)%Z)). intros j Hj.
      rewrite firstn_length in Hj. rewrite keyAt_firstn by lia. apply H4. lia.
    - apply (Forall_idx (fun k => byteAt k d = p)). intros j Hj. unfold slice in *.
      rewrite firstn_length, skipn_length in Hj.
      rewrite keyAt_firstn by lia. rewrite keyAt_skipn. apply H5; lia.
    - apply (Forall_idx (fun k => (byteAt k d > p)%Z)). intros j Hj.
      rewrite skipn_length in Hj. rewrite keyAt_skipn. apply H6; lia.
  Qed.

  Lemma radix_combine d p lo mid hi lo' mid' hi' :
    agree_upto d (lo ++ mid ++ hi) ->
    Forall (fun x => (byteAt (fst x) d < p)%Z) lo ->
    Forall (fun x => byteAt (fst x) d = p) mid ->
    Forall (fun x => (byteAt (fst x) d > p)%Z) hi ->
    Permutation lo lo' -> Permutation mid mid' -> Permutation hi hi' ->
    sorted lo' -> sorted mid' -> sorted hi' ->
    Permutation (lo ++ mid ++ hi) (lo' ++ mid' ++ hi') /\ sorted (lo' ++ mid' ++ hi').
  Proof.
    intros Hag Flo Fmid Fhi Plo Pmid Phi Slo Smid Shi.
    rewrite Forall_forall in Flo, Fmid, Fhi.
    assert (Ilo : forall x, In x lo' -> In x lo)
      by (intros x; apply Permutation_in; apply Permutation_sym; assumption).
    assert (Imid : forall x, In x mid' -> In x mid)
      by (intros x; apply Permutation_in; apply Permutation_sym; assumption).
    assert (Ihi : forall x, In x hi' -> In x hi)
      by (intros x; apply Permutation_in; apply Permutation_sym; assumption).
    assert (Hlt : forall x y, In x (lo ++ mid ++ hi) -> In y (lo ++ mid ++ hi) ->
                              (byteAt (fst x) d < byteAt (fst y) d)%Z -> str_le (fst x) (fst y)).
    { intros x y Hx Hy Hb. apply str_lt_le. apply (byteAt_lt_str_lt d); [|assumption].
      apply Hag; assumption. }
    split.
    - apply Permutation_app; [assumption|]. apply Permutation_app; assumption.
    - apply sorted_app; [assumption| |].
      + apply sorted_app; [assumption|assumption|]. intros x y Hx Hy.
        apply Imid in Hx. apply Ihi in Hy. apply Hlt.
        * apply in_or_app. right. apply in_or_app. left. assumption.
        * apply in_or_app. right. apply in_or_app. right. assumption.
        * specialize (Fmid x Hx). specialize (Fhi y Hy). cbv beta in *. lia.
      + intros x y Hx Hy. apply Ilo in Hx. specialize (Flo x Hx). cbv beta in Flo.
        apply in_app_or in Hy. destruct Hy as [Hy|Hy].
        * apply Imid in Hy. apply Hlt.
          -- apply in_or_app. left. assumption.
          -- apply in_or_app. right. apply in_or_app. left. assumption.
          -- specialize (Fmid y Hy). cbv beta in *. lia.
        * apply Ihi in Hy. apply Hlt.
          -- apply in_or_app. left. assumption.
          -- apply in_or_app. right. apply in_or_app. right. assumption.
          -- specialize (Fhi y Hy). cbv beta in *. lia.
  Qed.

  Lemma radixQsort_spec : forall md kvs d, agree_upto d kvs ->
      Permutation kvs (radixQsort kvs d md) /\ sorted (radixQsort kvs d md).
  Proof.
    induction md as [|md IH]; intros kvs d Hag; cbn [radixQsort];
      (destruct (11 <? length kvs); [|apply insertRadixSort_spec; assumption]).
    - apply heapSort_sorted_perm.
    - destruct (partLoop (length kvs) kvs d (pivot kvs d) 0 0 (length kvs)) as [[kvs1 lt] gt] eqn:Epart.
      apply partLoop_spec in Epart; [|lia|].
      2:{ unfold part_inv. repeat split; try lia; intros; lia. }
      destruct Epart as [Hp Hinv].
      pose proof (part_inv_Forall _ _ _ _ _ Hinv) as (Flo & Fmid & Fhi).
      destruct Hinv as (Hlg & _).
      pose proof (slice_decomp kvs1 lt gt Hlg) as Hdec.
      set (p := pivot kvs d) in *.
      set (lo := firstn lt kvs1) in *. set (mid := slice kvs1 lt gt) in *.
      set (hi := skipn gt kvs1) in *.
      assert (Hag1 : agree_upto d (lo ++ mid ++ hi)).
      { rewrite <- Hdec. eapply agree_upto_perm; eassumption. }
      assert (Hfin : forall lo' mid' hi',
                 Permutation lo lo' -> Permutation mid mid' -> Permutation hi hi' ->
                 sorted lo' -> sorted mid' -> sorted hi' ->
                 Permutation kvs (lo' ++ mid' ++ hi') /\ sorted (lo' ++ mid' ++ hi')).
      { intros lo' mid' hi' P1 P2 P3 S1 S2 S3.
        destruct (radix_combine d p lo mid hi lo' mid' hi') as [HP HS]; try assumption.
        split; [|exact HS]. eapply perm_trans; [exact Hp|]. rewrite Hdec. exact HP. }
      assert (Hlo : agree_upto d lo).
      { eapply agree_upto_incl; [|exact Hag1]. apply incl_appl. apply incl_refl. }
      assert (Hhi : agree_upto d hi).
      { eapply agree_upto_incl; [|exact Hag1]. apply incl_appr. apply incl_appr. apply incl_refl. }
      assert (Hmid : agree_upto d mid).
      { eapply agree_upto_incl; [|exact Hag1]. apply incl_appr. apply incl_appl. apply incl_refl. }
      destruct (IH lo d Hlo) as [Plo Slo]. destruct (IH hi d Hhi) as [Phi Shi].
      rewrite Forall_forall in Fmid.
      destruct (Z.eqb_spec p (-1)) as [Hp1|Hp1].
      + (* p == -1: the middle part holds equal keys and is left alone *)
        assert (Smid : sorted mid).
        { apply sorted_all_eq. intros x y Hx Hy. apply (byteAt_m1_eq d).
          - apply Hmid; assumption.
          - rewrite <- Hp1. apply Fmid. assumption.
          - rewrite <- Hp1. apply Fmid. assumption. }
        destruct (length kvs1 - gt <? lt); apply Hfin; auto using Permutation_refl.
      + assert (Hmid1 : agree_upto (d + 1) mid).
        { intros x y Hx Hy. rewrite Nat.add_1_r. apply byteAt_eq_firstn_S.
          - apply Hmid; assumption.
          - rewrite (Fmid x Hx), (Fmid y Hy). reflexivity. }
        destruct (IH mid (d + 1) Hmid1) as [Pmid Smid].
        destruct (maxThree lt (gt - lt) (length kvs1 - gt) =? lt);
          [|destruct (maxThree lt (gt - lt) (length kvs1 - gt) =? gt - lt)];
          apply Hfin; assumption.
  Qed.

  (* ---------------------------------------------------------------- main theorems *)

  Theorem radix_qsort_sorted_perm : forall (kvs : list pair) (d md : nat),
      agree_upto d kvs ->
      Permutation kvs (radixQsort kvs d md) /\
      StronglySorted (fun x y => str_le (fst x) (fst y)) (radixQsort kvs d md).
  Proof. intros kvs d md H. apply radixQsort_spec. exact H. Qed.

  Corollary sort_pairs_sorted_perm : forall kvs : list pair,
      Permutation kvs (sort_pairs kvs) /\
      StronglySorted (fun x y => str_le (fst x) (fst y)) (sort_pairs kvs).
  Proof.
    intros kvs. unfold sort_pairs. destruct (Nat.ltb_spec 1 (length kvs)) as [H|H].
    - apply radix_qsort_sorted_perm. apply agree_upto_0.
    - split; [apply Permutation_refl|].
      destruct kvs as [|x [|y t]]; cbn [length] in H; try lia; repeat constructor.
  Qed.

  (* ---------------------------------------------------------------- maxDepth: fuel is sufficient *)

  (* the loop of maxDepth leaves through its own condition (i = 0), never by fuel exhaustion:
     any fuel >= i gives the same result *)
  Lemma maxDepth_loop_fuel : forall f1 f2 i depth, i <= f1 -> i <= f2 ->
      maxDepth_loop f1 i depth = maxDepth_loop f2 i depth.
  Proof.
    induction f1 as [|f1 IH]; intros [|f2] i depth H1 H2; cbn [maxDepth_loop]; try reflexivity.
    - assert (i = 0) by lia. subst. reflexivity.
    - assert (i = 0) by lia. subst. reflexivity.
    - destruct (Nat.ltb_spec 0 i); [|reflexivity]. apply IH; lia.
  Qed.

  (* it returns 2 * (bit length of n), i.e. 2*ceil(lg(n+1)) as the Go comment says *)
  Lemma maxDepth_loop_log2 : forall fuel i depth, i <= fuel ->
      maxDepth_loop fuel i depth = depth + (if i =? 0 then 0 else S (Nat.log2 i)).
  Proof.
    induction fuel as [|fuel IH]; intros i depth Hi; cbn [maxDepth_loop].
    - assert (i = 0) by lia. subst. cbn. lia.
    - destruct (Nat.ltb_spec 0 i) as [Hpos|Hpos].
      + rewrite IH by lia. destruct (Nat.eqb_spec i 0); [lia|].
        destruct (Nat.eqb_spec (i / 2) 0) as [Hz|Hz].
        * assert (i = 1) by lia. subst. cbn. lia.
        * assert (Hlog : Nat.log2 i = S (Nat.log2 (i / 2))).
          { assert (Hq : 0 < i / 2) by lia.
            assert (Hi2 : i = 2 * (i / 2) \/ i = 2 * (i / 2) + 1) by lia.
            destruct Hi2 as [E|E]; rewrite E at 1.
            - apply Nat.log2_double. assumption.
            - apply Nat.log2_succ_double. assumption. }
          rewrite Hlog. lia.
      + assert (i = 0) by lia. subst. cbn. lia.
  Qed.

  Lemma maxDepth_spec n : maxDepth n = 2 * (if n =? 0 then 0 else S (Nat.log2 n)).
  Proof. unfold maxDepth. rewrite maxDepth_loop_log2 by lia. lia. Qed.

End MapSort.

(* ---------------------------------------------------------------- non-vacuity examples *)

Module MapSortExamples.
  Local Open Scope N_scope.

  (* keys tagged with their original index, so that values visibly travel with the keys *)
  Definition mk (l : list (list N)) : list (@pair N) :=
    combine l (map N.of_nat (seq 0 (length l))).

  Definition ks16 : list (list N) :=
    [[3;1];[2];[];[3];[1;2;3];[1;2];[9];[3;1;4];[3;1];[7;7];[0];[5;5;5];[2;2];[1];[8];[3;0]].

  (* 16 keys through sort_pairs (quick-sort path: partition, recursion, d += 1, insertRadixSort) *)
  Example sort_pairs_ex :
    sort_pairs (mk ks16) =
      [([], 2); ([0], 10); ([1], 13); ([1;2], 5); ([1;2;3], 4); ([2], 1); ([2;2], 12); ([3], 3);
       ([3;0], 15); ([3;1], 8); ([3;1], 0); ([3;1;4], 7); ([5;5;5], 11); ([7;7], 9); ([8], 14);
       ([9], 6)].
  Proof. vm_compute. reflexivity. Qed.

  (* maxDepth = 0 on 16 keys: the introsort fallback heapSort does all the work *)
  Example radixQsort_heap_ex :
    radixQsort (mk ks16) 0 0 =
      [([], 2); ([0], 10); ([1], 13); ([1;2], 5); ([1;2;3], 4); ([2], 1); ([2;2], 12); ([3], 3);
       ([3;0], 15); ([3;1], 0); ([3;1], 8); ([3;1;4], 7); ([5;5;5], 11); ([7;7], 9); ([8], 14);
       ([9], 6)]
    /\ radixQsort (mk ks16) 0 0 = heapSort (mk ks16) 0 16.
  Proof. vm_compute. split; reflexivity. Qed.

  (* 48 keys (> 40: Tukey ninther pivot), small depth budget: quick-sort levels, then heapSort *)
  Example radixQsort_ninther_ex :
    map fst (radixQsort (mk (ks16 ++ ks16 ++ ks16)) 0 3) =
      [[]; []; []; [0]; [0]; [0]; [1]; [1]; [1]; [1;2]; [1;2]; [1;2]; [1;2;3]; [1;2;3]; [1;2;3];
       [2]; [2]; [2]; [2;2]; [2;2]; [2;2]; [3]; [3]; [3]; [3;0]; [3;0]; [3;0];
       [3;1]; [3;1]; [3;1]; [3;1]; [3;1]; [3;1]; [3;1;4]; [3;1;4]; [3;1;4];
       [5;5;5]; [5;5;5]; [5;5;5]; [7;7]; [7;7]; [7;7]; [8]; [8]; [8]; [9]; [9]; [9]].
  Proof. vm_compute. reflexivity. Qed.

  (* the hypothesis of radix_qsort_sorted_perm is satisfiable for d > 0, including a key of
     length exactly d (byteAt = -1) *)
  Example agree_upto_ex : agree_upto 2 (mk [[1;2;3]; [1;2]; [1;2;9;9]; [1;2;0]]).
  Proof.
    intros x y Hx Hy. cbn in Hx, Hy.
    repeat (destruct Hx as [<-|Hx]); try contradiction;
      repeat (destruct Hy as [<-|Hy]); try contradiction; reflexivity.
  Qed.

  Example radixQsort_d2_ex :
    map fst (radixQsort (mk [[1;2;3]; [1;2]; [1;2;9;9]; [1;2;0]]) 2 5) = [[1;2]; [1;2;0]; [1;2;3]; [1;2;9;9]].
  Proof. vm_compute. reflexivity. Qed.

  (* the precondition is needed: with d = 1 and keys differing in byte 0 the result is not sorted *)
  Example radixQsort_needs_agree :
    map fst (radixQsort (mk [[2;1]; [1;2]]) 1 5) = [[2;1]; [1;2]].
  Proof. vm_compute. reflexivity. Qed.
End MapSortExamples.

Print Assumptions radix_qsort_sorted_perm.
Print Assumptions sort_pairs_sorted_perm.
Print Assumptions heapSort_sorted_perm.
