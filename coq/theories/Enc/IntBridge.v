(* C12 - bridge between the two decimal printers: Num/Dec.canon_dec (the specification property C19 proves the native
   fastint.h routines equal to) and Prims.utoa / itoa (strconv.AppendUint / AppendInt as used by the interpreter). *)
From Coq Require Import List NArith ZArith Bool Lia.
From SV.Num Require Import Dec IntPrint IntPrintExact.
From SV.Enc Require Import Prims.
Import ListNotations.
Local Open Scope Z_scope.

Lemma dchr_small : forall v, 0 <= v < 10 -> dchr v = (48 + Z.to_N v mod 10)%N.
Proof.
  intros v H. unfold dchr.
  assert (Z.to_N v mod 10 = Z.to_N v)%N as -> by (apply N.mod_small; lia).
  lia.
Qed.

Lemma div10_to_N : forall v, 0 <= v -> (Z.to_N v / 10)%N = Z.to_N (v / 10).
Proof. intros v H. symmetry. change 10%N with (Z.to_N 10). apply Z2N.inj_div; lia. Qed.

Lemma mod10_to_N : forall v, 0 <= v -> (Z.to_N v mod 10)%N = Z.to_N (v mod 10).
Proof. intros v H. symmetry. change 10%N with (Z.to_N 10). apply Z2N.inj_mod; lia. Qed.

Lemma canon_dec_digits_bridge : forall n v acc f1 f2, 0 <= v < 2 ^ Z.of_nat (S n) -> (n <= f1)%nat -> (n <= f2)%nat ->
  canon_fuel (S f1) v acc = dec_digits (S f2) (Z.to_N v) acc.
Proof.
  assert (Hsmall : forall v acc f1 f2, 0 <= v < 10 -> canon_fuel (S f1) v acc = dec_digits (S f2) (Z.to_N v) acc).
  { intros v acc f1 f2 Hv. cbn [canon_fuel dec_digits].
    assert (v <? 10 = true) as -> by (apply Z.ltb_lt; lia).
    assert ((Z.to_N v / 10 =? 0)%N = true) as ->.
    { apply N.eqb_eq. rewrite div10_to_N by lia. rewrite Z.div_small by lia. reflexivity. }
    rewrite dchr_small by lia. reflexivity. }
  induction n as [|n IH]; intros v acc f1 f2 Hv H1 H2.
  - apply Hsmall. cbn in Hv. lia.
  - destruct (Z_lt_ge_dec v 10) as [E|E]; [apply Hsmall; lia|].
    cbn [canon_fuel dec_digits].
    assert (v <? 10 = false) as -> by (apply Z.ltb_ge; lia).
    assert ((Z.to_N v / 10 =? 0)%N = false) as ->.
    { apply N.eqb_neq. rewrite div10_to_N by lia. intro Hz.
      assert (1 <= v / 10) as H10 by (apply Z.div_le_lower_bound; lia).
      destruct (v / 10); try discriminate; lia. }
    destruct f1 as [|f1]; [lia|]. destruct f2 as [|f2]; [lia|].
    rewrite div10_to_N by lia.
    assert (dchr (v mod 10) = (48 + Z.to_N v mod 10)%N) as ->.
    { rewrite mod10_to_N by lia. unfold dchr. assert (0 <= v mod 10 < 10) by (apply Z.mod_pos_bound; lia). lia. }
    apply IH; try lia.
    split; [apply Z.div_pos; lia|].
    apply Z.div_lt_upper_bound; [lia|].
    rewrite (Nat2Z.inj_succ (S n)), Z.pow_succ_r in Hv by lia. lia.
Qed.

Lemma log2_bound : forall v, 0 <= v -> v < 2 ^ Z.of_nat (S (Z.to_nat (Z.log2 v))).
Proof.
  intros v H. destruct (Z.eq_dec v 0) as [->|Hn]; [reflexivity|].
  rewrite Nat2Z.inj_succ, Z2Nat.id by apply Z.log2_nonneg.
  apply Z.log2_spec. lia.
Qed.

Lemma size_bound : forall n, Z.of_N n < 2 ^ Z.of_nat (N.to_nat (N.size n)).
Proof.
  intros n. destruct n as [|p]; [reflexivity|].
  rewrite N_nat_Z. rewrite N.size_log2 by discriminate.
  rewrite N2Z.inj_succ, Z.pow_succ_r by apply N2Z.is_nonneg.
  pose proof (N.log2_spec (Npos p) ltac:(lia)) as [_ Hu].
  rewrite N.pow_succ_r' in Hu.
  apply N2Z.inj_lt in Hu. rewrite N2Z.inj_mul, N2Z.inj_pow in Hu. exact Hu.
Qed.

Theorem canon_dec_utoa : forall v, 0 <= v -> canon_dec v = utoa (Z.to_N v).
Proof.
  intros v H. unfold canon_dec, utoa.
  set (f1 := Z.to_nat (Z.log2 v)). set (f2 := N.to_nat (N.size (Z.to_N v))).
  assert (B1 : v < 2 ^ Z.of_nat (S f1)) by (apply log2_bound; lia).
  assert (B2 : v < 2 ^ Z.of_nat (S f2)).
  { pose proof (size_bound (Z.to_N v)) as Hs. rewrite Z2N.id in Hs by lia. fold f2 in Hs.
    rewrite Nat2Z.inj_succ, Z.pow_succ_r by lia. assert (0 < 2 ^ Z.of_nat f2) by (apply Z.pow_pos_nonneg; lia). lia. }
  destruct (Nat.le_ge_cases f1 f2) as [L|L].
  - apply (canon_dec_digits_bridge f1); try lia.
  - apply (canon_dec_digits_bridge f2); try lia.
Qed.

Theorem canon_int_itoa : forall v, canon_int v = itoa v.
Proof.
  intros v. unfold canon_int, itoa. destruct v as [|p|p]; cbn [Z.ltb Z.compare].
  - reflexivity.
  - rewrite canon_dec_utoa by lia. reflexivity.
  - rewrite canon_dec_utoa by lia. reflexivity.
Qed.

(* the native routines print what strconv prints *)
Theorem u64toa_is_utoa : forall v, 0 <= v < 2 ^ 64 -> IntPrint.u64toa v = utoa (Z.to_N v).
Proof. intros v H. rewrite u64toa_exact by exact H. apply canon_dec_utoa. lia. Qed.

Theorem i64toa_is_itoa : forall v, - 2 ^ 63 <= v < 2 ^ 63 -> IntPrint.i64toa v = itoa v.
Proof. intros v H. rewrite i64toa_exact by exact H. apply canon_int_itoa. Qed.
