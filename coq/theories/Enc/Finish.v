(* C04 - the post passes of encodeFinish (HTML escape, UTF-8 correction) keep a strict RFC 8259 value strict:
   both copy every structural byte and rewrite only inside string literals, into well-formed escapes. *)
From Coq Require Import List NArith ZArith Bool Lia.
From SV.Enc Require Import Prims.
From SV.Json Require Import Chars Grammar.
Import ListNotations.
Local Open Scope nat_scope.

(* ---- characters of a number *)
Definition numchar (c : N) : Prop := is_digit c = true \/ c = 43%N \/ c = 45%N \/ c = 46%N \/ c = 69%N \/ c = 101%N.

Lemma digits_numchar : forall d, forallb is_digit d = true -> Forall numchar d.
Proof.
  induction d as [|c d IH]; intro H; [constructor|]. cbn in H. apply andb_true_iff in H. destruct H as [H1 H2].
  constructor; [left; exact H1|apply IH; exact H2].
Qed.

Lemma snumber_numchar : forall n, snumber n -> Forall numchar n.
Proof.
  assert (Hu : forall n, sunsigned n -> Forall numchar n).
  { intros n (i & f & x & -> & Hi & Hf & Hx). apply Forall_app. split; [|apply Forall_app; split].
    - destruct Hi as [->|(c & d & -> & Hc & _ & Hd)]; [constructor; [left; reflexivity|constructor]|].
      constructor; [left; exact Hc|apply digits_numchar; exact Hd].
    - destruct Hf as [->|(d & -> & _ & Hd)]; [constructor|]. constructor; [unfold numchar; auto 10|apply digits_numchar; exact Hd].
    - destruct Hx as [->|(c & d & Hc & (_ & Hd) & [->|(g & Hg & ->)])]; [constructor| |].
      + constructor; [|apply digits_numchar; exact Hd]. unfold is_exp in Hc. apply orb_true_iff in Hc.
        destruct Hc as [Hc|Hc]; apply N.eqb_eq in Hc; unfold numchar; auto 10.
      + constructor; [|constructor; [|apply digits_numchar; exact Hd]].
        * unfold is_exp in Hc. apply orb_true_iff in Hc. destruct Hc as [Hc|Hc]; apply N.eqb_eq in Hc; unfold numchar; auto 10.
        * unfold is_sign in Hg. apply orb_true_iff in Hg. destruct Hg as [Hg|Hg]; apply N.eqb_eq in Hg; unfold numchar; auto 10. }
  intros n [H|(m & -> & H)]; [apply Hu; exact H|]. constructor; [unfold numchar; auto 10|apply Hu; exact H].
Qed.

Section Pass.
  Variable T : bytes -> bytes.
  Hypothesis Hsafe : forall c r, (c < 128)%N -> c <> 60%N -> c <> 62%N -> c <> 38%N -> T (c :: r) = c :: T r.
  Hypothesis Hbody : forall b rest, strict_body b -> exists b', strict_body b' /\ T (b ++ 34%N :: rest) = b' ++ 34%N :: T rest.

  Lemma T_ws : forall w r, all_ws w -> T (w ++ r) = w ++ T r.
  Proof.
    induction w as [|c w IH]; intros r H; [reflexivity|]. apply all_ws_cons in H. destruct H as [Hc Hw].
    cbn [app]. unfold isspace in Hc. repeat (apply orb_true_iff in Hc; destruct Hc as [Hc|Hc]); apply N.eqb_eq in Hc; subst c;
      (rewrite Hsafe by lia); rewrite (IH _ Hw); reflexivity.
  Qed.

  Lemma T_num : forall n r, Forall numchar n -> T (n ++ r) = n ++ T r.
  Proof.
    induction 1 as [|c n Hc Hn IH]; [reflexivity|]. cbn [app]. rewrite Hsafe, IH; [reflexivity| | | |];
      (destruct Hc as [Hc|Hc]; [unfold is_digit in Hc; apply andb_true_iff in Hc; destruct Hc as [H1 H2];
                                apply N.leb_le in H1; apply N.leb_le in H2; lia|lia]).
  Qed.

  Definition Pv (d : nat) (v : list N) : Prop := forall rest, exists v', strict d v' /\ T (v ++ rest) = v' ++ T rest.
  Definition Pa (d : nat) (t : list N) : Prop := forall rest, exists t', strict_atail d t' /\ T (t ++ rest) = t' ++ T rest.
  Definition Po (d : nat) (t : list N) : Prop := forall rest, exists t', strict_otail d t' /\ T (t ++ rest) = t' ++ T rest.

  Ltac norm := cbn [app]; repeat (rewrite <- app_assoc; cbn [app]).
  Ltac safe := rewrite Hsafe by lia.

  Lemma pass_all :
    (forall d v, strict d v -> Pv d v) /\ (forall d t, strict_atail d t -> Pa d t) /\ (forall d t, strict_otail d t -> Po d t).
  Proof.
    apply strict_mutind; unfold Pv, Pa, Po; intros.
    - exists lit_null. split; [constructor|]. unfold lit_null. cbn [app]. repeat safe. reflexivity.
    - exists lit_true. split; [constructor|]. unfold lit_true. cbn [app]. repeat safe. reflexivity.
    - exists lit_false. split; [constructor|]. unfold lit_false. cbn [app]. repeat safe. reflexivity.
    - exists n. split; [constructor; assumption|]. apply T_num. apply snumber_numchar. assumption.
    - destruct (Hbody b rest H) as (b' & Hb' & E). exists (34%N :: b' ++ [34%N]). split; [constructor; exact Hb'|].
      norm. safe. rewrite E. reflexivity.
    - exists (91%N :: w ++ [93%N]). split; [constructor; assumption|]. norm. safe. rewrite (T_ws _ _ H). safe. reflexivity.
    - destruct (H1 (t ++ rest)) as (v' & Hv' & Ev). destruct (H3 rest) as (t' & Ht' & Et).
      exists (91%N :: w ++ v' ++ t'). split; [constructor; assumption|]. norm. safe. rewrite (T_ws _ _ H), Ev, Et. reflexivity.
    - exists (123%N :: w ++ [125%N]). split; [constructor; assumption|]. norm. safe. rewrite (T_ws _ _ H). safe. reflexivity.
    - destruct (H4 (t ++ rest)) as (v' & Hv' & Ev). destruct (H6 rest) as (t' & Ht' & Et).
      destruct (Hbody b (w1 ++ 58%N :: w2 ++ v ++ t ++ rest) H0) as (b' & Hb' & Eb).
      exists (123%N :: w ++ 34%N :: b' ++ 34%N :: w1 ++ 58%N :: w2 ++ v' ++ t'). split; [constructor; assumption|].
      norm. safe. rewrite (T_ws _ _ H). safe. rewrite Eb. rewrite (T_ws _ _ H1). safe. rewrite (T_ws _ _ H2), Ev, Et. reflexivity.
    - exists (w ++ [93%N]). split; [constructor; assumption|]. norm. rewrite (T_ws _ _ H). safe. reflexivity.
    - destruct (H2 (t ++ rest)) as (v' & Hv' & Ev). destruct (H4 rest) as (t' & Ht' & Et).
      exists (w ++ 44%N :: w' ++ v' ++ t'). split; [constructor; assumption|].
      norm. rewrite (T_ws _ _ H). safe. rewrite (T_ws _ _ H0), Ev, Et. reflexivity.
    - exists (w ++ [125%N]). split; [constructor; assumption|]. norm. rewrite (T_ws _ _ H). safe. reflexivity.
    - destruct (H5 (t ++ rest)) as (v' & Hv' & Ev). destruct (H7 rest) as (t' & Ht' & Et).
      destruct (Hbody b (w1 ++ 58%N :: w2 ++ v ++ t ++ rest) H1) as (b' & Hb' & Eb).
      exists (w ++ 44%N :: w0 ++ 34%N :: b' ++ 34%N :: w1 ++ 58%N :: w2 ++ v' ++ t'). split; [constructor; assumption|].
      norm. rewrite (T_ws _ _ H). safe. rewrite (T_ws _ _ H0). safe. rewrite Eb. rewrite (T_ws _ _ H2). safe.
      rewrite (T_ws _ _ H3), Ev, Et. reflexivity.
  Qed.

  Hypothesis Hnil : T [] = [].

  Theorem pass_strict : forall d v, strict d v -> strict d (T v).
  Proof.
    intros d v H. destruct (proj1 pass_all d v H []) as (v' & Hv' & E). rewrite app_nil_r, Hnil, app_nil_r in E. rewrite E. exact Hv'.
  Qed.
End Pass.

(* ---- the HTML escape pass *)
Definition html_special (r : bytes) : option (bytes * bytes) :=
  match r with
  | x :: y :: r' =>
      if (x =? 128)%N then
        if (y =? 168)%N then Some (u_esc 50 48 50 56, r')
        else if (y =? 169)%N then Some (u_esc 50 48 50 57, r') else None
      else None
  | _ => None
  end.

Lemma html_unfold : forall c r, html_escape (c :: r) =
  if (c =? 60)%N then u_esc 48 48 51 99 ++ html_escape r
  else if (c =? 62)%N then u_esc 48 48 51 101 ++ html_escape r
  else if (c =? 38)%N then u_esc 48 48 50 54 ++ html_escape r
  else if (c =? 226)%N then
    match html_special r with Some (u, r') => u ++ html_escape r' | None => c :: html_escape r end
  else c :: html_escape r.
Proof.
  intros c r. cbn [html_escape].
  destruct (c =? 60)%N; [reflexivity|]. destruct (c =? 62)%N; [reflexivity|]. destruct (c =? 38)%N; [reflexivity|].
  destruct (N.eqb_spec c 226) as [->|Hc].
  - destruct r as [|x [|y r']]; cbn [html_special].
    + reflexivity.
    + destruct x as [|p]; [reflexivity|]. do 8 (destruct p as [p|p|]; try reflexivity).
    + destruct (N.eqb_spec x 128) as [->|Hx].
      * destruct (N.eqb_spec y 168) as [->|Hy]; [reflexivity|]. destruct (N.eqb_spec y 169) as [->|Hy']; [reflexivity|].
        destruct y as [|p]; [reflexivity|]. do 8 (destruct p as [p|p|]; try reflexivity); congruence.
      * destruct x as [|p]; [reflexivity|]. do 8 (destruct p as [p|p|]; try reflexivity); congruence.
  - destruct c as [|p]; [reflexivity|]. do 8 (destruct p as [p|p|]; try reflexivity); congruence.
Qed.

Lemma html_safe : forall c r, (c < 128)%N -> c <> 60%N -> c <> 62%N -> c <> 38%N -> html_escape (c :: r) = c :: html_escape r.
Proof.
  intros c r H0 H1 H2 H3. rewrite html_unfold.
  apply N.eqb_neq in H1, H2, H3. rewrite H1, H2, H3.
  assert ((c =? 226)%N = false) as -> by (apply N.eqb_neq; lia). reflexivity.
Qed.

Lemma u_esc_body : forall a b c d r, is_hex a = true -> is_hex b = true -> is_hex c = true -> is_hex d = true ->
  strict_body r -> strict_body (u_esc a b c d ++ r).
Proof. intros. unfold u_esc. cbn [app]. apply stb_u; assumption. Qed.

Lemma body_tail_plain : forall x b, (128 <= x)%N -> strict_body (x :: b) -> strict_body b.
Proof. intros x b Hx H. inversion H; subst; [assumption|lia|lia]. Qed.

Lemma html_body : forall n b, length b <= n -> strict_body b -> forall rest,
  exists b', strict_body b' /\ html_escape (b ++ 34%N :: rest) = b' ++ 34%N :: html_escape rest.
Proof.
  induction n as [|n IH]; intros b Hn Hb rest.
  - destruct b; [|cbn in Hn; lia]. exists []. split; [constructor|]. cbn [app]. apply html_safe; lia.
  - inversion Hb as [|c b1 H1 H2 H3 Hb1|x b1 Hx Hb1|h1 h2 h3 h4 b1 Hh1 Hh2 Hh3 Hh4 Hb1]; subst.
    + exists []. split; [constructor|]. cbn [app]. apply html_safe; lia.
    + cbn [length] in Hn. cbn [app]. rewrite html_unfold.
      destruct (N.eqb_spec c 60) as [->|N1].
      { destruct (IH b1 ltac:(lia) Hb1 rest) as (b' & Hb' & E). rewrite E. eexists. split; [|rewrite app_assoc; reflexivity].
        apply u_esc_body; try reflexivity. exact Hb'. }
      destruct (N.eqb_spec c 62) as [->|N2].
      { destruct (IH b1 ltac:(lia) Hb1 rest) as (b' & Hb' & E). rewrite E. eexists. split; [|rewrite app_assoc; reflexivity].
        apply u_esc_body; try reflexivity. exact Hb'. }
      destruct (N.eqb_spec c 38) as [->|N3].
      { destruct (IH b1 ltac:(lia) Hb1 rest) as (b' & Hb' & E). rewrite E. eexists. split; [|rewrite app_assoc; reflexivity].
        apply u_esc_body; try reflexivity. exact Hb'. }
      assert (Hdef : exists b', strict_body b' /\ c :: html_escape (b1 ++ 34%N :: rest) = b' ++ 34%N :: html_escape rest).
      { destruct (IH b1 ltac:(lia) Hb1 rest) as (b' & Hb' & E). rewrite E. exists (c :: b'). split; [apply stb_char; assumption|reflexivity]. }
      destruct (N.eqb_spec c 226) as [->|N4]; [|exact Hdef].
      destruct b1 as [|x [|y b2]]; cbn [app html_special] in *.
      * destruct rest as [|y r2]; cbn; exact Hdef.
      * destruct (x =? 128)%N; cbn; exact Hdef.
      * destruct (N.eqb_spec x 128) as [->|Nx]; [|exact Hdef].
        assert (Hb2 : (128 <= y)%N -> strict_body b2).
        { intro Hy. apply body_tail_plain in Hb1; [|lia]. apply body_tail_plain in Hb1; [exact Hb1|exact Hy]. }
        cbn [length] in Hn.
        destruct (N.eqb_spec y 168) as [->|Ny].
        { destruct (IH b2 ltac:(lia) (Hb2 ltac:(lia)) rest) as (b' & Hb' & E). rewrite E. eexists. split; [|rewrite app_assoc; reflexivity].
          apply u_esc_body; try reflexivity. exact Hb'. }
        destruct (N.eqb_spec y 169) as [->|Ny'].
        { destruct (IH b2 ltac:(lia) (Hb2 ltac:(lia)) rest) as (b' & Hb' & E). rewrite E. eexists. split; [|rewrite app_assoc; reflexivity].
          apply u_esc_body; try reflexivity. exact Hb'. }
        exact Hdef.
    + cbn [length] in Hn. cbn [app]. rewrite (html_safe 92) by lia.
      assert (Hx' : (x < 128)%N /\ x <> 60%N /\ x <> 62%N /\ x <> 38%N).
      { unfold simple_escape in Hx. repeat (apply orb_true_iff in Hx; destruct Hx as [Hx|Hx]); apply N.eqb_eq in Hx; lia. }
      destruct Hx' as (X1 & X2 & X3 & X4). rewrite (html_safe x) by assumption.
      destruct (IH b1 ltac:(lia) Hb1 rest) as (b' & Hb' & E). rewrite E. exists (92%N :: x :: b'). split; [apply stb_esc; assumption|reflexivity].
    + cbn [length] in Hn. cbn [app]. rewrite (html_safe 92) by lia. rewrite (html_safe 117) by lia.
      assert (Hhex : forall h, is_hex h = true -> (h < 128)%N /\ h <> 60%N /\ h <> 62%N /\ h <> 38%N).
      { intros h Hh. unfold is_hex, is_digit in Hh. repeat (apply orb_true_iff in Hh; destruct Hh as [Hh|Hh]);
          apply andb_true_iff in Hh; destruct Hh as [A B]; apply N.leb_le in A; apply N.leb_le in B; lia. }
      destruct (Hhex _ Hh1) as (A1 & A2 & A3 & A4). destruct (Hhex _ Hh2) as (B1 & B2 & B3 & B4).
      destruct (Hhex _ Hh3) as (C1 & C2 & C3 & C4). destruct (Hhex _ Hh4) as (D1 & D2 & D3 & D4).
      rewrite (html_safe h1), (html_safe h2), (html_safe h3), (html_safe h4) by assumption.
      destruct (IH b1 ltac:(lia) Hb1 rest) as (b' & Hb' & E). rewrite E.
      exists (92%N :: 117%N :: h1 :: h2 :: h3 :: h4 :: b'). split; [apply stb_u; assumption|reflexivity].
Qed.

Theorem html_escape_strict : forall d v, strict d v -> strict d (html_escape v).
Proof.
  intros d v H. apply (pass_strict html_escape html_safe); [|reflexivity|exact H].
  intros b rest Hb. eapply html_body; [apply le_n|exact Hb].
Qed.

(* ---- the UTF-8 correction pass *)
Lemma aux_fuel : forall f1 f2 s, length s <= f1 -> length s <= f2 -> utf8_correct_aux f1 s = utf8_correct_aux f2 s.
Proof.
  induction f1 as [|f1 IH]; intros f2 s H1 H2.
  - destruct s; [|cbn in H1; lia]. destruct f2; reflexivity.
  - destruct s as [|b r]; [destruct f2; reflexivity|]. destruct f2 as [|f2]; [cbn in H2; lia|].
    cbn [length] in H1, H2. cbn [utf8_correct_aux].
    destruct (utf8_len (b :: r)) as [|m].
    + f_equal. apply IH; lia.
    + f_equal. assert (Hl : length (skipn (S m) (b :: r)) <= length r) by (rewrite skipn_length; cbn [length]; lia).
      apply IH; lia.
Qed.

Lemma utf8_unfold : forall c r, utf8_correct (c :: r) =
  match utf8_len (c :: r) with
  | O => repl_fffd ++ utf8_correct r
  | n => firstn n (c :: r) ++ utf8_correct (skipn n (c :: r))
  end.
Proof.
  intros c r. unfold utf8_correct. cbn [length utf8_correct_aux].
  destruct (utf8_len (c :: r)) as [|m]; [reflexivity|]. f_equal.
  apply aux_fuel; [|apply le_n]. rewrite skipn_length. cbn [length]. lia.
Qed.

Lemma utf8_safe : forall c r, (c < 128)%N -> utf8_correct (c :: r) = c :: utf8_correct r.
Proof.
  intros c r H. rewrite utf8_unfold. unfold utf8_len. apply N.ltb_lt in H. rewrite H. reflexivity.
Qed.

Definition hi (x : N) : Prop := (128 <= x)%N.

Lemma cont_hi : forall b, cont b = true -> hi b.
Proof. intros b H. unfold cont in H. apply andb_true_iff in H. destruct H as [H _]. apply N.leb_le in H. exact H. Qed.

Lemma between_hi : forall lo h b, (128 <= lo)%N -> between lo h b = true -> hi b.
Proof. intros lo h b Hlo H. unfold between in H. apply andb_true_iff in H. destruct H as [H _]. apply N.leb_le in H. unfold hi. lia. Qed.

Lemma utf8_len_spec : forall c r m, hi c -> utf8_len (c :: r) = S m ->
  exists p q, c :: r = p ++ q /\ length p = S m /\ Forall hi p.
Proof.
  intros c r m Hc H. unfold utf8_len in H.
  assert ((c <? 128)%N = false) as E by (apply N.ltb_ge; exact Hc). rewrite E in H.
  destruct (between 194 223 c).
  { destruct r as [|b1 r]; [discriminate H|]. destruct (cont b1) eqn:C1; [|discriminate H]. injection H as <-.
    exists [c; b1], r. repeat split. repeat constructor; [exact Hc|apply cont_hi; exact C1]. }
  destruct (between 224 239 c).
  { destruct r as [|b1 [|b2 r]]; try discriminate H.
    destruct (between (if (c =? 224)%N then 160%N else 128%N) (if (c =? 237)%N then 159%N else 191%N) b1) eqn:B1; [|discriminate H].
    destruct (cont b2) eqn:C2; [|discriminate H]. injection H as <-.
    exists [c; b1; b2], r. repeat split. repeat constructor; [exact Hc| |apply cont_hi; exact C2].
    eapply between_hi; [|exact B1]. destruct (c =? 224)%N; lia. }
  destruct (between 240 244 c); [|discriminate H].
  destruct r as [|b1 [|b2 [|b3 r]]]; try discriminate H.
  destruct (between (if (c =? 240)%N then 144%N else 128%N) (if (c =? 244)%N then 143%N else 191%N) b1) eqn:B1; [|discriminate H].
  destruct (cont b2) eqn:C2; [|discriminate H]. destruct (cont b3) eqn:C3; [|discriminate H]. injection H as <-.
  exists [c; b1; b2; b3], r. repeat split. repeat constructor; [exact Hc| |apply cont_hi; exact C2|apply cont_hi; exact C3].
  eapply between_hi; [|exact B1]. destruct (c =? 240)%N; lia.
Qed.

Lemma hi_prefix : forall p q b rest, Forall hi p -> p ++ q = b ++ 34%N :: rest -> exists b2, b = p ++ b2 /\ q = b2 ++ 34%N :: rest.
Proof.
  induction p as [|x p IH]; intros q b rest Hp E.
  - exists b. split; [reflexivity|exact E].
  - inversion Hp as [|x' p' Hx Hp']; subst. destruct b as [|y b].
    + cbn in E. injection E as E1 _. subst x. unfold hi in Hx. lia.
    + cbn in E. injection E as -> E. destruct (IH _ _ _ Hp' E) as (b2 & -> & ->). exists b2. split; reflexivity.
Qed.

Lemma hi_body_split : forall p b, Forall hi p -> strict_body (p ++ b) -> strict_body b.
Proof.
  induction p as [|x p IH]; intros b Hp H; [exact H|]. inversion Hp; subst. cbn [app] in H.
  apply IH; [assumption|]. eapply body_tail_plain; [|exact H]. assumption.
Qed.

Lemma hi_body_app : forall p b, Forall hi p -> strict_body b -> strict_body (p ++ b).
Proof.
  induction 1 as [|x p Hx Hp IH]; intro Hb; [exact Hb|]. cbn [app]. unfold hi in Hx. apply stb_char; try lia. apply IH. exact Hb.
Qed.

Lemma utf8_body : forall n b, length b <= n -> strict_body b -> forall rest,
  exists b', strict_body b' /\ utf8_correct (b ++ 34%N :: rest) = b' ++ 34%N :: utf8_correct rest.
Proof.
  induction n as [|n IH]; intros b Hn Hb rest.
  - destruct b; [|cbn in Hn; lia]. exists []. split; [constructor|]. cbn [app]. apply utf8_safe; lia.
  - inversion Hb as [|c b1 H1 H2 H3 Hb1|x b1 Hx Hb1|h1 h2 h3 h4 b1 Hh1 Hh2 Hh3 Hh4 Hb1]; subst.
    + exists []. split; [constructor|]. cbn [app]. apply utf8_safe; lia.
    + cbn [length] in Hn. destruct (N.lt_ge_cases c 128) as [Hlo|Hhi].
      * cbn [app]. rewrite utf8_safe by exact Hlo.
        destruct (IH b1 ltac:(lia) Hb1 rest) as (b' & Hb' & E). rewrite E. exists (c :: b'). split; [apply stb_char; assumption|reflexivity].
      * cbn [app]. rewrite utf8_unfold. destruct (utf8_len (c :: b1 ++ 34%N :: rest)) as [|m] eqn:El.
        -- destruct (IH b1 ltac:(lia) Hb1 rest) as (b' & Hb' & E). rewrite E. exists (repl_fffd ++ b'). split; [|rewrite app_assoc; reflexivity].
           unfold repl_fffd. cbn [app]. apply stb_u; try reflexivity. exact Hb'.
        -- destruct (utf8_len_spec _ _ _ Hhi El) as (p & q & Epq & Hlen & Hp).
           change (c :: b1 ++ 34%N :: rest) with ((c :: b1) ++ 34%N :: rest) in Epq |- *.
           destruct (hi_prefix _ _ _ _ Hp (eq_sym Epq)) as (b2 & Eb & ->).
           rewrite Eb. rewrite <- app_assoc. rewrite <- Hlen.
           cbv zeta. rewrite firstn_app, Nat.sub_diag, firstn_all, skipn_app, Nat.sub_diag, skipn_all. cbn [firstn skipn app]. rewrite app_nil_r.
           assert (Hb2 : strict_body b2) by (eapply hi_body_split; [exact Hp|rewrite <- Eb; exact Hb]).
           assert (Hl2 : length b2 <= n).
           { assert (length (c :: b1) = length (p ++ b2)) by (rewrite Eb; reflexivity). rewrite app_length in H. cbn [length] in H. lia. }
           destruct (IH b2 Hl2 Hb2 rest) as (b' & Hb' & E). rewrite E. exists (p ++ b'). split; [apply hi_body_app; assumption|rewrite app_assoc; reflexivity].
    + cbn [length] in Hn. cbn [app]. rewrite (utf8_safe 92) by lia.
      assert (Hx' : (x < 128)%N).
      { unfold simple_escape in Hx. repeat (apply orb_true_iff in Hx; destruct Hx as [Hx|Hx]); apply N.eqb_eq in Hx; lia. }
      rewrite (utf8_safe x) by assumption.
      destruct (IH b1 ltac:(lia) Hb1 rest) as (b' & Hb' & E). rewrite E. exists (92%N :: x :: b'). split; [apply stb_esc; assumption|reflexivity].
    + cbn [length] in Hn. cbn [app]. rewrite (utf8_safe 92) by lia. rewrite (utf8_safe 117) by lia.
      assert (Hhex : forall h, is_hex h = true -> (h < 128)%N).
      { intros h Hh. unfold is_hex, is_digit in Hh. repeat (apply orb_true_iff in Hh; destruct Hh as [Hh|Hh]);
          apply andb_true_iff in Hh; destruct Hh as [A B]; apply N.leb_le in A; apply N.leb_le in B; lia. }
      rewrite (utf8_safe h1), (utf8_safe h2), (utf8_safe h3), (utf8_safe h4) by (apply Hhex; assumption).
      destruct (IH b1 ltac:(lia) Hb1 rest) as (b' & Hb' & E). rewrite E.
      exists (92%N :: 117%N :: h1 :: h2 :: h3 :: h4 :: b'). split; [apply stb_u; assumption|reflexivity].
Qed.

Theorem utf8_correct_strict : forall d v, strict d v -> strict d (utf8_correct v).
Proof.
  intros d v H. apply (pass_strict utf8_correct); [| |reflexivity|exact H].
  - intros c r Hc _ _ _. apply utf8_safe. exact Hc.
  - intros b rest Hb. eapply utf8_body; [apply le_n|exact Hb].
Qed.
