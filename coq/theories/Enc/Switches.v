(* C18/C04 - the documented effect of encoder switches, on the machine:
   (1) for values of the proved fragment the outcome of execution depends on no option bit other than NoNullSliceOrMap
       (and the internal pointer-value bit): in particular EncodeNullForInfOrNan and SortMapKeys change nothing there;
   (2) EncodeNullForInfOrNan turns exactly the NaN/Inf failure of a float into `null`. *)
From Coq Require Import List NArith ZArith Bool Lia.
From SV.Enc Require Import Prims Ty Val IR Compile JsonLite VM Exec StdEnc TyLemmas Sim Frag Steps EncProofs Total C04Proofs.
Import ListNotations.
Local Open Scope nat_scope.

Definition done_or_fuel (o : outcome) (res : bytes) : Prop := o = Done res \/ o = OutOfFuel.

Section Switch.
  Variable P : prims.
  Variable e : env.
  Variable co : copts.
  Hypothesis Hi : forall z, (- 2 ^ 63 <= z < 2 ^ 63)%Z -> p_i64toa P z = itoa z.
  Hypothesis Hu : forall z, (0 <= z < 2 ^ 64)%Z -> p_u64toa P z = utoa (Z.to_N z).
  Hypothesis Hq : forall s d, p_quote P s d = quote s d.
  Hypothesis Hbr : b_recurse P <> b_empty_arr P.
  Hypothesis Hnull : EncOnlyOmitNull co = false.
  Hypothesis Hinline : 0 < MaxInlineDepth co.

  (* execution of a typed fragment value gives the bytes of the reference encoder run with the NoNullSliceOrMap bit of the
     option word - no other bit of the word matters.  The reference uses that bit in two places only (StdEnc.std_enc):
     a nil slice is `[]` instead of `null`, a nil map `{}` instead of `null`. *)
  Theorem exec_top_frag : forall flg t v prog,
    frag e t -> compilable e co t -> has_type (fok P) t v ->
    compile e co t (has_opts flg BitPointerValue) = COk prog ->
    (N.of_nat (need v) <= p_stack P)%N ->
    exists res, std_marshal e Qraw (has_opts flg (b_empty_arr P)) (S (need v)) (Some (t, v)) = SOk res /\
                done_or_fuel (exec_top P e co flg (Some (t, v))) res.
  Proof.
    intros flg t v prog Ht Hcp Hv Hc Hstk.
    set (nn := has_opts flg (b_empty_arr P)).
    destruct (std_total e nn (fok P) ltac:(intros k b txt (x & -> & _); eexists; reflexivity) t Ht v (S (need v)) false Hv (le_n _)) as [res Hstd].
    exists res. split; [exact Hstd|].
    destruct (exec_frag P e co nn Hi Hu Hq Hbr Hnull Hinline flg t v (S (need v)) res prog eq_refl Ht Hcp Hv Hc Hstd Hstk) as (s0 & k & Hcall & Hrun).
    unfold done_or_fuel, exec_top. rewrite Hcall.
    assert (Hk : k < 2 ^ (40 + k)) by (pose proof (pow2_gt (40 + k)); lia).
    pose proof (Hrun (40 + k) Hk) as H1.
    destruct (VM.run P e co 40 s0) as [s'| b | x | c | ] eqn:E; cbn [finish_run].
    - right. reflexivity.
    - pose proof (run_mono P e co 40 s0 _ E ltac:(discriminate) (40 + k) ltac:(lia)) as H2.
      rewrite H1 in H2. injection H2 as <-. left. reflexivity.
    - pose proof (run_mono P e co 40 s0 _ E ltac:(discriminate) (40 + k) ltac:(lia)) as H2. rewrite H1 in H2. discriminate H2.
    - pose proof (run_mono P e co 40 s0 _ E ltac:(discriminate) (40 + k) ltac:(lia)) as H2. rewrite H1 in H2. discriminate H2.
    - pose proof (run_mono P e co 40 s0 _ E ltac:(discriminate) (40 + k) ltac:(lia)) as H2. rewrite H1 in H2. discriminate H2.
  Qed.

  (* switching any option bit b other than NoNullSliceOrMap / pointer-value on: same bytes *)
  Theorem switch_irrelevant : forall b flg t v prog,
    b <> b_empty_arr P -> b <> BitPointerValue ->
    frag e t -> compilable e co t -> has_type (fok P) t v ->
    compile e co t (has_opts flg BitPointerValue) = COk prog ->
    (N.of_nat (need v) <= p_stack P)%N ->
    exists res, done_or_fuel (exec_top P e co flg (Some (t, v))) res /\
                done_or_fuel (exec_top P e co (set_bit flg b) (Some (t, v))) res.
  Proof.
    intros b flg t v prog Hb1 Hb2 Ht Hcp Hv Hc Hstk.
    destruct (exec_top_frag flg t v prog Ht Hcp Hv Hc Hstk) as (res & Hstd & H1).
    assert (Hc' : compile e co t (has_opts (set_bit flg b) BitPointerValue) = COk prog) by (rewrite has_opts_set_other by exact Hb2; exact Hc).
    destruct (exec_top_frag (set_bit flg b) t v prog Ht Hcp Hv Hc' Hstk) as (res' & Hstd' & H2).
    rewrite has_opts_set_other in Hstd' by exact Hb1.
    rewrite Hstd in Hstd'. injection Hstd' as <-. exists res. split; assumption.
  Qed.
End Switch.

(* EncodeNullForInfOrNan on a NaN/Inf float64: `null` instead of the error *)
Theorem encode_nan64_null : forall P e co flags bits txt, is_nan_inf64 bits = true -> has_opts flags (b_f64 P) = true ->
  encode P e co flags (Some (TPrim KFloat64, VFloat bits txt)) = Done (encode_finish flags s_null).
Proof.
  intros P e co flags bits txt Hn Hb. unfold encode, exec_top, call.
  assert (compile e co (TPrim KFloat64) (has_opts flags BitPointerValue) = COk [OP_f64]) as -> by (destruct (has_opts flags BitPointerValue); reflexivity).
  set (f := {| fprog := [OP_f64]; fpc := 0; fflags := flags; fregs := regs0 (PAt (TPrim KFloat64) (VFloat bits txt) 0) |}).
  set (s0 := {| frames := f :: frames state0; out := out state0; stk := stk state0; reqs := (TPrim KFloat64, has_opts flags BitPointerValue) :: reqs state0 |}).
  assert (H : VM.run P e co 40 s0 = Done s_null).
  { eapply (run_complete2 P e co 1 s0).
    - apply steps_one. eapply (nan64_null P e co s0 f [] (TPrim KFloat64) bits txt); [split; reflexivity|reflexivity|exact Hn|exact Hb].
    - reflexivity.
    - discriminate.
    - pose proof (pow2_gt 40). lia. }
  rewrite H. reflexivity.
Qed.

(* the reference encoder uses the NoNullSliceOrMap bit for nil slices / maps only *)
Example std_enc_nn_nil : forall e el,
  std_enc e Qraw true 1 (TSlice el) (VSlice None) false false = SOk [91%N; 93%N] /\
  std_enc e Qraw false 1 (TSlice el) (VSlice None) false false = SOk s_null.
Proof. intros e el. split; reflexivity. Qed.
