(* C03/C12/C04 - Go values as trees, and the typed "memory view" the encoder programs navigate.
   A cursor (the VM register p) is a block (type, value) plus a byte offset in it - exactly what the real
   pointer arithmetic (OP_index, OP_slice_next) computes; OP_deref / OP_slice_len / the map iterator switch
   to another block. *)
From Coq Require Import List NArith ZArith Bool Lia.
From SV.Enc Require Import Prims Ty.
Import ListNotations.
Local Open Scope N_scope.

(* result of a user method (the method body is an oracle) *)
Inductive oracle := ONone | OErr | OOk (b : bytes).

Inductive val :=
| VBool (b : bool)
| VInt (z : Z)                              (* every integer kind, value in the range of the kind *)
| VFloat (bits : N) (txt : option bytes)    (* IEEE bits (32 or 64 according to the kind) and, for finite values, the
                                               shortest decimal rendering (strconv / encoding/json format) *)
| VStr (s : bytes)
| VArr (l : list val)
| VSlice (l : option (list val))            (* None = nil slice *)
| VMap (l : option (list (val * val)))      (* None = nil map; pairs in iteration order *)
| VPtr (o : option val)
| VIface (o : option (ty * val))            (* dynamic type and value *)
| VStruct (l : list val)                    (* one value per physical field *)
| VMeth (j t : oracle) (u : val)            (* value of a named type with methods: MarshalJSON / MarshalText results, underlying value *)
| VOpaque.                                  (* chan, func, complex, unsafe.Pointer *)

Definition strip (v : val) : val := match v with VMeth _ _ u => u | _ => v end.

(* cursor *)
Inductive ptr :=
| PNil
| PAt (t : ty) (v : val) (off : N).

Definition padd (p : ptr) (n : N) : ptr :=
  match p with PNil => PNil | PAt t v o => PAt t v (o + n) end.

Section View.
  Variable e : env.

  (* view want t v off: the outermost component of the block at exactly this offset whose type satisfies want *)
  Fixpoint view (want : ty -> bool) (t : ty) (v : val) (off : N) {struct v} : option (ty * val) :=
    if want t && (off =? 0) then Some (t, v) else
    match v with
    | VMeth _ _ u =>
        match t with
        | TNamed _ => view want (unfold e t) u off
        | _ => None
        end
    | VStruct vs =>
        match unfold e t with
        | TStruct _ ph _ =>
            (fix go (ph : list (N * ty)) (vs : list val) {struct vs} : option (ty * val) :=
               match ph, vs with
               | (o, ft) :: ph', fv :: vs' =>
                   if (o <=? off) && (off <? o + sizeof e ft) then view want ft fv (off - o)
                   else if (o =? off) && (sizeof e ft =? 0)
                        then match view want ft fv 0 with          (* a zero-size field at this address: look inside, else go on *)
                             | Some x => Some x
                             | None => go ph' vs'
                             end
                        else go ph' vs'
               | _, _ => None
               end) ph vs
        | _ => None
        end
    | VArr vs =>
        match unfold e t with
        | TArray _ el =>
            let s := sizeof e el in
            if s =? 0 then None else
            (fix go (i : N) (vs : list val) {struct vs} : option (ty * val) :=
               match vs with
               | x :: vs' => if i =? 0 then view want el x (off mod s) else go (i - 1) vs'
               | [] => None
               end) (off / s) vs
        | _ => None
        end
    | _ => None
    end.

  Definition is_aggregate (t : ty) : bool :=
    match rkind_of e t with RStruct | RArray => true | _ => false end.

  (* the scalar / header word(s) stored at the cursor *)
  Definition leaf (p : ptr) : option (ty * val) :=
    match p with
    | PNil => None
    | PAt t v off =>
        match view (fun t => negb (is_aggregate t)) t v off with
        | Some (lt, lv) => Some (lt, strip lv)
        | None => None
        end
    end.

  (* the value of static type want at the cursor *)
  Definition typed (want : ty) (p : ptr) : option val :=
    match p with
    | PNil => None
    | PAt t v off => match view (ty_eqb want) t v off with Some (_, x) => Some x | None => None end
    end.
End View.

(* reflect.Value.IsZero (Go 1.23: floats compare with == 0, so -0.0 is zero) *)
Section IsZero.
  Variable e : env.
  Fixpoint is_zero_val (t : ty) (v : val) {struct v} : bool :=
    match v with
    | VBool b => negb b
    | VInt z => (z =? 0)%Z
    | VFloat bits _ => if is_kind e t KFloat32 then bits mod 2 ^ 31 =? 0 else bits mod 2 ^ 63 =? 0
    | VStr s => match s with [] => true | _ => false end
    | VArr l =>
        let el := match unfold e t with TArray _ x => x | _ => t end in
        (fix all (l : list val) : bool := match l with [] => true | x :: r => is_zero_val el x && all r end) l
    | VSlice o => match o with None => true | Some _ => false end
    | VMap o => match o with None => true | Some _ => false end
    | VPtr o => match o with None => true | Some _ => false end
    | VIface o => match o with None => true | Some _ => false end
    | VStruct l =>
        match unfold e t with
        | TStruct _ ph _ =>
            (fix all (ph : list (N * ty)) (l : list val) {struct l} : bool :=
               match ph, l with
               | (_, ft) :: ph', x :: r => is_zero_val ft x && all ph' r
               | _, _ => true
               end) ph l
        | _ => false
        end
    | VMeth _ _ u => is_zero_val (unfold e t) u
    | VOpaque => true
    end.
End IsZero.

(* ---- widths and machine reads *)
Definition int_bits (k : kind) : option (N * bool) :=   (* width in bits, signed *)
  match k with
  | KInt8 => Some (8, true) | KInt16 => Some (16, true) | KInt32 => Some (32, true) | KInt | KInt64 => Some (64, true)
  | KUint8 => Some (8, false) | KUint16 => Some (16, false) | KUint32 => Some (32, false)
  | KUint | KUint64 | KUintptr => Some (64, false)
  | _ => None
  end.

(* the two's-complement pattern of z on w bits *)
Definition pattern (w : N) (z : Z) : Z := (z mod 2 ^ Z.of_N w)%Z.
Definition as_signed (w : N) (z : Z) : Z :=
  let m := pattern w z in if (m <? 2 ^ (Z.of_N w - 1))%Z then m else (m - 2 ^ Z.of_N w)%Z.

(* is the low n bytes of the leaf zero *)
Definition low_zero (nbytes : N) (v : val) : option bool :=
  match v with
  | VBool b => Some (negb b)
  | VInt z => Some (pattern (8 * nbytes) z =? 0)%Z
  | VFloat bits _ => Some (bits mod 2 ^ (8 * nbytes) =? 0)
  | _ => None
  end.

(* first machine word of the leaf is zero (OP_is_nil) *)
Definition word0_zero (v : val) : option bool :=
  match v with
  | VPtr o => Some (match o with None => true | Some _ => false end)
  | VMap o => Some (match o with None => true | Some _ => false end)
  | VSlice o => Some (match o with None => true | Some _ => false end)
  | VIface o => Some (match o with None => true | Some _ => false end)
  | VInt z => Some (z =? 0)%Z
  | _ => None
  end.
