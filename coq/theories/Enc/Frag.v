(* C03 - the proved fragment of the type universe, typing of values, and "the cursor points at a sub-object". *)
From Coq Require Import List NArith ZArith Bool Lia.
From SV.Enc Require Import Prims Ty Val IR Compile.
Import ListNotations.
Local Open Scope N_scope.

(* ---- the fragment: unnamed scalars, pointers, slices, arrays *)
Definition scalar_kind (k : kind) : bool :=
  match k with
  | KBool | KInt | KInt8 | KInt16 | KInt32 | KInt64 | KUint | KUint8 | KUint16 | KUint32 | KUint64 | KUintptr
  | KFloat32 | KFloat64 | KString => true
  | _ => false
  end.

Inductive frag : ty -> Prop :=
| F_prim : forall k, scalar_kind k = true -> frag (TPrim k)
| F_ptr : forall el, frag el -> frag (TPtr el)
| F_slice : forall el, frag el -> frag (TSlice el)
| F_arr : forall n el, frag el -> frag (TArray n el).

Fixpoint fsize (t : ty) : nat :=
  match t with
  | TArray _ el | TSlice el | TPtr el => S (fsize el)
  | TMap k el => S (fsize k + fsize el)
  | _ => 1%nat
  end.

Lemma ty_eqb_fsize : forall a b, frag a -> ty_eqb a b = true -> fsize a = fsize b.
Proof.
  intros a b Ha. revert b. induction Ha as [k Hk|el Hel IH|el Hel IH|n el Hel IH]; intros b H; destruct b; cbn [ty_eqb] in H; try discriminate H; cbn [fsize].
  - reflexivity.
  - f_equal. apply IH. exact H.
  - f_equal. apply IH. exact H.
  - apply andb_true_iff in H. destruct H as [_ H]. f_equal. apply IH. exact H.
Qed.

Definition tab_above (tab : list ty) (t : ty) : Prop := forall a, In a tab -> (fsize t < fsize a)%nat.

Lemma mem_ty_false : forall t tab, frag t -> tab_above tab t -> mem_ty t tab = false.
Proof.
  intros t tab Hf Ht. unfold mem_ty. apply not_true_is_false. intro H.
  apply existsb_exists in H. destruct H as [a [Ha He]].
  pose proof (ty_eqb_fsize _ _ Hf He). specialize (Ht a Ha). lia.
Qed.

(* fragment types have no methods, are not json.Number, whatever the environment *)
Lemma frag_no_marshaler : forall e t pc pv, frag t -> tryCompileMarshaler e pc t pv = None.
Proof.
  intros e t pc pv H. unfold tryCompileMarshaler.
  assert (Hi : forall m, implements e t m = false).
  { intro m. destruct H as [k Hk|el Hel|el Hel|n el Hel]; try reflexivity. cbn. destruct Hel; reflexivity. }
  assert (Hp : forall m, implements e (TPtr t) m = false) by (intro m; destruct H; reflexivity).
  rewrite !Hi, !Hp. destruct pv; reflexivity.
Qed.

(* ---- typing *)
Definition int_range_ok (k : kind) (z : Z) : Prop :=
  match int_bits k with
  | Some (w, true) => (- 2 ^ (Z.of_N w - 1) <= z < 2 ^ (Z.of_N w - 1))%Z
  | Some (w, false) => (0 <= z < 2 ^ Z.of_N w)%Z
  | None => False
  end.

Section Typing.
  Variable float_ok : kind -> N -> option bytes -> Prop.   (* the digit oracle of a float is acceptable to the executor *)

  Inductive has_type : ty -> val -> Prop :=
  | HT_bool : forall b, has_type (TPrim KBool) (VBool b)
  | HT_int : forall k z, int_range_ok k z -> has_type (TPrim k) (VInt z)
  | HT_float : forall k bits txt, (k = KFloat32 \/ k = KFloat64) -> float_ok k bits txt -> has_type (TPrim k) (VFloat bits txt)
  | HT_str : forall s, has_type (TPrim KString) (VStr s)
  | HT_ptr_nil : forall el, has_type (TPtr el) (VPtr None)
  | HT_ptr : forall el x, has_type el x -> has_type (TPtr el) (VPtr (Some x))
  | HT_slice_nil : forall el, has_type (TSlice el) (VSlice None)
  | HT_slice : forall el l, (forall x, In x l -> has_type el x) -> has_type (TSlice el) (VSlice (Some l))
  | HT_arr : forall n el l, length l = n -> (forall x, In x l -> has_type el x) -> has_type (TArray n el) (VArr l).
End Typing.

(* ---- the cursor points at a sub-object of type t and value v of some block *)
Section Loc.
  Variable e : env.

  Definition leafw (t : ty) : bool := negb (is_aggregate e t).

  Definition loc (p : ptr) (t : ty) (v : val) : Prop :=
    exists bt bv off, p = PAt bt bv off /\
      forall r, r < sizeof e t -> view e leafw bt bv (off + r) = view e leafw t v r.

  Lemma loc_root : forall t v, loc (PAt t v 0) t v.
  Proof. intros. exists t, v, 0. split; [reflexivity|]. intros r _. reflexivity. Qed.

  Lemma leafw_prim : forall k, leafw (TPrim k) = true. Proof. reflexivity. Qed.
  Lemma leafw_ptr : forall el, leafw (TPtr el) = true. Proof. reflexivity. Qed.
  Lemma leafw_slice : forall el, leafw (TSlice el) = true. Proof. reflexivity. Qed.
  Lemma leafw_arr : forall n el, leafw (TArray n el) = false. Proof. reflexivity. Qed.

  Lemma view_leaf0 : forall t v, leafw t = true -> view e leafw t v 0 = Some (t, v).
  Proof. intros t v H. destruct v; cbn [view]; rewrite H; reflexivity. Qed.

  Lemma loc_leaf : forall p t v, loc p t v -> leafw t = true -> 0 < sizeof e t -> leaf e p = Some (t, strip v).
  Proof.
    intros p t v (bt & bv & off & -> & H) Hl Hs. unfold leaf. fold leafw.
    specialize (H 0 Hs). rewrite N.add_0_r in H. rewrite H, (view_leaf0 _ _ Hl). reflexivity.
  Qed.

  (* element i of an array *)
  Lemma view_arr_go : forall want el s off l i,
    (fix go (i : N) (vs : list val) {struct vs} : option (ty * val) :=
       match vs with
       | x :: vs' => if i =? 0 then view e want el x (off mod s) else go (i - 1) vs'
       | [] => None
       end) i l = match nth_error l (N.to_nat i) with Some x => view e want el x (off mod s) | None => None end.
  Proof.
    intros want el s off l. induction l as [|x l IH]; intro i.
    - destruct (N.to_nat i); reflexivity.
    - destruct (i =? 0) eqn:E.
      + apply N.eqb_eq in E. subst i. reflexivity.
      + apply N.eqb_neq in E. rewrite IH. replace (N.to_nat i) with (S (N.to_nat (i - 1))) by lia. reflexivity.
  Qed.

  Lemma view_arr_elem : forall n el l i x r, leafw (TArray n el) = false ->
    nth_error l i = Some x -> r < sizeof e el ->
    view e leafw (TArray n el) (VArr l) (N.of_nat i * sizeof e el + r) = view e leafw el x r.
  Proof.
    intros n el l i x r Hw Hn Hr. cbn [view]. rewrite Hw. cbn [andb unfold].
    assert (Hs : sizeof e el <> 0) by lia.
    destruct (sizeof e el =? 0) eqn:E; [apply N.eqb_eq in E; contradiction|].
    rewrite view_arr_go.
    assert (Hd : (N.of_nat i * sizeof e el + r) / sizeof e el = N.of_nat i).
    { rewrite N.div_add_l by exact Hs. rewrite (N.div_small r) by exact Hr. lia. }
    assert (Hm : (N.of_nat i * sizeof e el + r) mod sizeof e el = r).
    { rewrite N.add_comm, N.mod_add by exact Hs. apply N.mod_small. exact Hr. }
    rewrite Hd, Hm, Nat2N.id, Hn. reflexivity.
  Qed.

  Lemma loc_elem : forall p n el l i x, loc p (TArray n el) (VArr l) -> length l = n -> nth_error l i = Some x ->
    loc (padd p (N.of_nat i * sizeof e el)) el x.
  Proof.
    intros p n el l i x (bt & bv & off & -> & H) Hlen Hn.
    exists bt, bv, (off + N.of_nat i * sizeof e el). split; [reflexivity|].
    intros r Hr.
    assert (Hi : (i < n)%nat) by (rewrite <- Hlen; apply nth_error_Some; congruence).
    rewrite <- N.add_assoc. rewrite H.
    - apply view_arr_elem; [reflexivity|exact Hn|exact Hr].
    - cbn [sizeof]. nia.
  Qed.
End Loc.
