(* C03 - the proved fragment of the type universe, typing of values, and "the cursor points at a sub-object". *)
From Coq Require Import List NArith ZArith Bool Lia.
From SV.Enc Require Import Prims Ty Val IR Compile.
From SV.Enc Require Import TyLemmas.
Import ListNotations.
Local Open Scope N_scope.

(* ---- the fragment: unnamed scalars, pointers, slices, arrays *)
Definition scalar_kind (k : kind) : bool :=
  match k with
  | KBool | KInt | KInt8 | KInt16 | KInt32 | KInt64 | KUint | KUint8 | KUint16 | KUint32 | KUint64 | KUintptr
  | KFloat32 | KFloat64 | KString => true
  | _ => false
  end.

(* a resolved field of the fragment: a direct offset to a physical field of that type; options: none, or omitempty on a
   bool / integer / string / pointer / slice field (floats: known finding KF-C03-negzero-omitempty), or `,string` on a scalar field *)
Definition omittable (t : ty) : bool :=
  match t with
  | TPrim (KFloat32 | KFloat64) => false
  | TPrim k => scalar_kind k
  | TPtr _ | TSlice _ => true
  | _ => false
  end.
Definition quotable (t : ty) : bool := match t with TPrim k => scalar_kind k | _ => false end.

Definition opts_ok (f : field) : Prop :=
  f_opts f = 0 \/ (f_opts f = 1 /\ omittable (f_type f) = true) \/ (f_opts f = 2 /\ quotable (f_type f) = true).

Definition field_ok (ph : list (N * ty)) (f : field) : Prop :=
  exists o, f_path f = [(o, false)] /\ opts_ok f /\ In (o, f_type f) ph.

Lemma opts_ok_bits : forall f, opts_ok f ->
  F_omitzero f = false /\ (F_omitempty f = true -> omittable (f_type f) = true /\ F_stringize f = false) /\
  (F_stringize f = true -> quotable (f_type f) = true /\ F_omitempty f = false).
Proof.
  intros f [H|[[H Ho]|[H Hq]]]; unfold F_omitzero, F_omitempty, F_stringize; rewrite H; cbn; repeat split; auto; discriminate.
Qed.

Section FragDef.
  Variable e : env.

  (* physical fields in increasing, non-overlapping order, none of size 0 *)
  Fixpoint layout_ok (lo : N) (ph : list (N * ty)) (size : N) : Prop :=
    match ph with
    | [] => lo <= size
    | (o, t) :: r => lo <= o /\ 0 < sizeof e t /\ layout_ok (o + sizeof e t) r size
    end.

  Fixpoint frag (t : ty) : Prop :=
    match t with
    | TPrim k => scalar_kind k = true
    | TPtr el | TSlice el | TArray _ el => frag el
    | TStruct size ph fs =>
        (fix all (l : list (N * ty)) : Prop := match l with [] => True | (_, t) :: r => frag t /\ all r end) ph /\
        layout_ok 0 ph size /\ Forall (field_ok ph) fs
    | _ => False
    end.

  Definition frag_all (ph : list (N * ty)) : Prop :=
    (fix all (l : list (N * ty)) : Prop := match l with [] => True | (_, t) :: r => frag t /\ all r end) ph.

  Lemma frag_struct : forall size ph fs, frag (TStruct size ph fs) <-> frag_all ph /\ layout_ok 0 ph size /\ Forall (field_ok ph) fs.
  Proof. intros. reflexivity. Qed.

  Lemma frag_all_in : forall ph o t, frag_all ph -> In (o, t) ph -> frag t.
  Proof.
    induction ph as [|[o' t'] r IH]; intros o t H Hin; [destruct Hin|].
    cbn in H. destruct H as [Ht Hr]. destruct Hin as [Hin|Hin]; [inversion Hin; subst; exact Ht|]. eapply IH; eassumption.
  Qed.
End FragDef.

Definition tab_above (tab : list ty) (t : ty) : Prop := forall a, In a tab -> (tsize t < tsize a)%nat.

Lemma mem_ty_false : forall t tab, tab_above tab t -> mem_ty t tab = false.
Proof.
  intros t tab Ht. unfold mem_ty. apply not_true_is_false. intro H.
  apply existsb_exists in H. destruct H as [a [Ha He]].
  pose proof (ty_eqb_tsize _ _ He). specialize (Ht a Ha). lia.
Qed.

(* fragment types have no methods, are not json.Number, whatever the environment *)
Lemma frag_implements : forall e e' t m, frag e' t -> implements e t m = false /\ implements e (TPtr t) m = false.
Proof.
  intros e e' t m H. destruct t as [k|n el|el|kt el|el|ik|sz ph fs|id]; cbn in H; try contradiction; split; try reflexivity.
  destruct el; cbn in H; try contradiction; reflexivity.
Qed.

Lemma frag_no_marshaler : forall e e' t pc pv, frag e' t -> tryCompileMarshaler e pc t pv = None.
Proof.
  intros e e' t pc pv H. unfold tryCompileMarshaler.
  destruct (frag_implements e e' t MJson H) as [H1 H2]. destruct (frag_implements e e' t MText H) as [H3 H4].
  rewrite H1, H2, H3, H4. destruct pv; reflexivity.
Qed.

(* ---- typing *)
Definition int_range_ok (k : kind) (z : Z) : Prop :=
  match int_bits k with
  | Some (w, true) => (- 2 ^ (Z.of_N w - 1) <= z < 2 ^ (Z.of_N w - 1))%Z
  | Some (w, false) => (0 <= z < 2 ^ Z.of_N w)%Z
  | None => False
  end.

Section Typing.
  Variable float_ok : kind -> N -> option bytes -> Prop.   (* the digit oracle of a float is acceptable to the executor *)

  Inductive has_type : ty -> val -> Prop :=
  | HT_bool : forall b, has_type (TPrim KBool) (VBool b)
  | HT_int : forall k z, int_range_ok k z -> has_type (TPrim k) (VInt z)
  | HT_float : forall k bits txt, (k = KFloat32 \/ k = KFloat64) -> float_ok k bits txt -> has_type (TPrim k) (VFloat bits txt)
  | HT_str : forall s, has_type (TPrim KString) (VStr s)
  | HT_ptr_nil : forall el, has_type (TPtr el) (VPtr None)
  | HT_ptr : forall el x, has_type el x -> has_type (TPtr el) (VPtr (Some x))
  | HT_slice_nil : forall el, has_type (TSlice el) (VSlice None)
  | HT_slice : forall el l, (forall x, In x l -> has_type el x) -> has_type (TSlice el) (VSlice (Some l))
  | HT_arr : forall n el l, length l = n -> (forall x, In x l -> has_type el x) -> has_type (TArray n el) (VArr l)
  | HT_struct : forall size ph fs vs, length vs = length ph ->
      (forall k o t x, nth_error ph k = Some (o, t) -> nth_error vs k = Some x -> has_type t x) ->
      has_type (TStruct size ph fs) (VStruct vs).
End Typing.

(* ---- the cursor points at a sub-object of type t and value v of some block *)
Section Loc.
  Variable e : env.

  Definition leafw (t : ty) : bool := negb (is_aggregate e t).

  Definition loc (p : ptr) (t : ty) (v : val) : Prop :=
    exists bt bv off, p = PAt bt bv off /\
      forall r, r < sizeof e t -> view e leafw bt bv (off + r) = view e leafw t v r.

  Lemma loc_root : forall t v, loc (PAt t v 0) t v.
  Proof. intros. exists t, v, 0. split; [reflexivity|]. intros r _. reflexivity. Qed.

  Lemma leafw_prim : forall k, leafw (TPrim k) = true. Proof. reflexivity. Qed.
  Lemma leafw_ptr : forall el, leafw (TPtr el) = true. Proof. reflexivity. Qed.
  Lemma leafw_slice : forall el, leafw (TSlice el) = true. Proof. reflexivity. Qed.
  Lemma leafw_arr : forall n el, leafw (TArray n el) = false. Proof. reflexivity. Qed.

  Lemma view_leaf0 : forall t v, leafw t = true -> view e leafw t v 0 = Some (t, v).
  Proof. intros t v H. destruct v; cbn [view]; rewrite H; reflexivity. Qed.

  Lemma loc_leaf : forall p t v, loc p t v -> leafw t = true -> 0 < sizeof e t -> leaf e p = Some (t, strip v).
  Proof.
    intros p t v (bt & bv & off & -> & H) Hl Hs. unfold leaf. fold leafw.
    specialize (H 0 Hs). rewrite N.add_0_r in H. rewrite H, (view_leaf0 _ _ Hl). reflexivity.
  Qed.

  (* element i of an array *)
  Lemma view_arr_go : forall want el s off l i,
    (fix go (i : N) (vs : list val) {struct vs} : option (ty * val) :=
       match vs with
       | x :: vs' => if i =? 0 then view e want el x (off mod s) else go (i - 1) vs'
       | [] => None
       end) i l = match nth_error l (N.to_nat i) with Some x => view e want el x (off mod s) | None => None end.
  Proof.
    intros want el s off l. induction l as [|x l IH]; intro i.
    - destruct (N.to_nat i); reflexivity.
    - destruct (i =? 0) eqn:E.
      + apply N.eqb_eq in E. subst i. reflexivity.
      + apply N.eqb_neq in E. rewrite IH. replace (N.to_nat i) with (S (N.to_nat (i - 1))) by lia. reflexivity.
  Qed.

  Lemma view_arr_elem : forall n el l i x r, leafw (TArray n el) = false ->
    nth_error l i = Some x -> r < sizeof e el ->
    view e leafw (TArray n el) (VArr l) (N.of_nat i * sizeof e el + r) = view e leafw el x r.
  Proof.
    intros n el l i x r Hw Hn Hr. cbn [view]. rewrite Hw. cbn [andb unfold].
    assert (Hs : sizeof e el <> 0) by lia.
    destruct (sizeof e el =? 0) eqn:E; [apply N.eqb_eq in E; contradiction|].
    rewrite view_arr_go.
    assert (Hd : (N.of_nat i * sizeof e el + r) / sizeof e el = N.of_nat i).
    { rewrite N.div_add_l by exact Hs. rewrite (N.div_small r) by exact Hr. lia. }
    assert (Hm : (N.of_nat i * sizeof e el + r) mod sizeof e el = r).
    { rewrite N.add_comm, N.mod_add by exact Hs. apply N.mod_small. exact Hr. }
    rewrite Hd, Hm, Nat2N.id, Hn. reflexivity.
  Qed.

  Lemma loc_elem : forall p n el l i x, loc p (TArray n el) (VArr l) -> length l = n -> nth_error l i = Some x ->
    loc (padd p (N.of_nat i * sizeof e el)) el x.
  Proof.
    intros p n el l i x (bt & bv & off & -> & H) Hlen Hn.
    exists bt, bv, (off + N.of_nat i * sizeof e el). split; [reflexivity|].
    intros r Hr.
    assert (Hi : (i < n)%nat) by (rewrite <- Hlen; apply nth_error_Some; congruence).
    rewrite <- N.add_assoc. rewrite H.
    - apply view_arr_elem; [reflexivity|exact Hn|exact Hr].
    - cbn [sizeof]. nia.
  Qed.

  (* ---- fields of a struct *)
  Definition sgo (want : ty -> bool) (off : N) : list (N * ty) -> list val -> option (ty * val) :=
    fix go (ph : list (N * ty)) (vs : list val) {struct vs} : option (ty * val) :=
      match ph, vs with
      | (o, ft) :: ph', fv :: vs' =>
          if (o <=? off) && (off <? o + sizeof e ft) then view e want ft fv (off - o)
          else if (o =? off) && (sizeof e ft =? 0)
               then match view e want ft fv 0 with Some x => Some x | None => go ph' vs' end
               else go ph' vs'
      | _, _ => None
      end.

  Lemma view_struct : forall want size ph fs vs off,
    view e want (TStruct size ph fs) (VStruct vs) off =
    if want (TStruct size ph fs) && (off =? 0) then Some (TStruct size ph fs, VStruct vs) else sgo want off ph vs.
  Proof. reflexivity. Qed.

  Lemma layout_lo : forall ph lo size k o t, layout_ok e lo ph size -> nth_error ph k = Some (o, t) -> lo <= o.
  Proof.
    induction ph as [|[o0 t0] r IH]; intros lo size k o t H Hn; [destruct k; discriminate Hn|].
    cbn in H. destruct H as (H1 & H2 & H3). destruct k as [|k]; [injection Hn as <- <-; exact H1|].
    cbn in Hn. specialize (IH _ _ _ _ _ H3 Hn). lia.
  Qed.

  Lemma layout_pos : forall ph lo size k o t, layout_ok e lo ph size -> nth_error ph k = Some (o, t) -> 0 < sizeof e t.
  Proof.
    induction ph as [|[o0 t0] r IH]; intros lo size k o t H Hn; [destruct k; discriminate Hn|].
    cbn in H. destruct H as (H1 & H2 & H3). destruct k as [|k]; [injection Hn as <- <-; exact H2|].
    cbn in Hn. eapply IH; eassumption.
  Qed.

  Lemma sgo_hit : forall want ph vs lo size k o t x r,
    layout_ok e lo ph size -> nth_error ph k = Some (o, t) -> nth_error vs k = Some x -> r < sizeof e t ->
    sgo want (o + r) ph vs = view e want t x r.
  Proof.
    intros want. induction ph as [|[o0 t0] ph IH]; intros vs lo size k o t x r Hl Hp Hv Hr; [destruct k; discriminate Hp|].
    destruct vs as [|v0 vs]; [destruct k; discriminate Hv|].
    cbn in Hl. destruct Hl as (H1 & H2 & H3).
    destruct k as [|k].
    - injection Hp as <- <-. injection Hv as <-. cbn [sgo].
      assert ((o0 <=? o0 + r) && (o0 + r <? o0 + sizeof e t0) = true) as ->.
      { apply andb_true_iff. split; [apply N.leb_le; lia|apply N.ltb_lt; lia]. }
      f_equal. lia.
    - cbn in Hp, Hv. pose proof (layout_lo _ _ _ _ _ _ H3 Hp) as Hlo.
      cbn [sgo].
      assert ((o0 <=? o + r) && (o + r <? o0 + sizeof e t0) = false) as ->.
      { apply andb_false_iff. right. apply N.ltb_ge. lia. }
      assert ((o0 =? o + r) && (sizeof e t0 =? 0) = false) as ->.
      { apply andb_false_iff. left. apply N.eqb_neq. lia. }
      eapply IH; eassumption.
  Qed.

  Lemma leafw_struct : forall size ph fs, leafw (TStruct size ph fs) = false. Proof. reflexivity. Qed.

  Lemma loc_field : forall p size ph fs vs k o t x,
    loc p (TStruct size ph fs) (VStruct vs) -> layout_ok e 0 ph size ->
    nth_error ph k = Some (o, t) -> nth_error vs k = Some x -> loc (padd p o) t x.
  Proof.
    intros p size ph fs vs k o t x (bt & bv & off & -> & H) Hl Hp Hv.
    exists bt, bv, (off + o). split; [reflexivity|].
    intros r Hr. rewrite <- N.add_assoc. rewrite H.
    - rewrite view_struct, leafw_struct. cbn [andb]. eapply sgo_hit; eassumption.
    - cbn [sizeof].
      (* o + r < size: the field lies inside the struct *)
      assert (Hin : forall ph lo, layout_ok e lo ph size -> nth_error ph k = Some (o, t) -> o + sizeof e t <= size).
      { clear. intros ph. revert k. induction ph as [|[o0 t0] ph IH]; intros k lo Hl Hn; [destruct k; discriminate Hn|].
        cbn in Hl. destruct Hl as (H1 & H2 & H3). destruct k as [|k].
        - injection Hn as <- <-. clear IH. revert H3. generalize (o0 + sizeof e t0). clear.
          induction ph as [|[o1 t1] ph IH]; intros lo H; cbn in H; [exact H|]. destruct H as (Ha & Hb & Hc). specialize (IH _ Hc). lia.
        - eapply IH; eassumption. }
      specialize (Hin ph 0 Hl Hp). lia.
  Qed.

  (* the typed read of the reference encoder finds the field *)
  Lemma typed_field : forall size ph fs vs k o t x,
    layout_ok e 0 ph size -> nth_error ph k = Some (o, t) -> nth_error vs k = Some x ->
    typed e t (PAt (TStruct size ph fs) (VStruct vs) o) = Some x.
  Proof.
    intros size ph fs vs k o t x Hl Hp Hv. unfold typed. rewrite view_struct.
    assert (ty_eqb t (TStruct size ph fs) = false) as ->.
    { apply not_true_is_false. intro He. pose proof (ty_eqb_tsize _ _ He) as Hs. rewrite tsize_struct in Hs.
      pose proof (phys_size_in ph o t (nth_error_In _ _ Hp)). lia. }
    cbn [andb].
    pose proof (layout_pos _ _ _ _ _ _ Hl Hp) as H0.
    rewrite <- (N.add_0_r o). rewrite (sgo_hit _ _ _ _ _ _ _ _ _ 0 Hl Hp Hv H0).
    destruct x; cbn [view]; rewrite ty_eqb_refl; reflexivity.
  Qed.
End Loc.
