(* C05: the memory optdec's native parser can see is input[pos:] ++ padding and nothing else.
   Gen/OptPad.v is regenerated from internal/decoder/optdec/native.go: the emitter only accepts the two appends to the emptied pooled
   buffer, so `optdec_padded_layout` is what the source does now; a buffer built any other way (pre-sized, padding written at another
   offset, a gap that keeps bytes of an earlier parse) is rejected and this tie breaks. *)
From Coq Require Import NArith List Lia.
From SV.Mem Require Import Mem Routines.
From SV.Gen Require Import OptPad.
Import ListNotations.

(* the private buffer for a decode that starts at pos *)
Definition part_bytes (data : list N) (pos : nat) (pt : pad_part) : list N :=
  match pt with PInputFromPos => skipn pos data | PPadding => optdec_padding end.

Definition padded_buffer (data : list N) (pos : nat) : list N :=
  flat_map (part_bytes data pos) optdec_padded_layout.

Theorem padded_buffer_is_input_then_padding : forall data pos,
  padded_buffer data pos = skipn pos data ++ padding.
Proof. intros. unfold padded_buffer, optdec_padded_layout. cbn [flat_map part_bytes]. rewrite app_nil_r. reflexivity. Qed.

Theorem optdec_padding_is_model_padding : optdec_padding = padding /\ length padding = 64%nat.
Proof. split; reflexivity. Qed.

(* whatever was parsed before (the old contents `stale` of the pooled buffer) and whatever follows the caller's input in memory,
   a parse that stays below len(input[pos:]) + 64 sees the same bytes: its result is a function of input[pos:] alone *)
Theorem resumed_parse_sees_only_input : forall {A} (p : prog A) (data : list N) pos (t1 t2 : list N),
  in_bounds (length (skipn pos data) + 64)%nat (touched (padded_buffer data pos ++ t1) p) ->
  run (padded_buffer data pos ++ t2) p = run (padded_buffer data pos ++ t1) p.
Proof.
  intros A p data pos t1 t2 H. rewrite !padded_buffer_is_input_then_padding in *.
  apply padded_copy_reads_private. exact H.
Qed.
