(* C05: the scalar scanners of /repo/native/scanning.h, lspace.h, value.c written in the read monad of Mem.v.
   `n` is src->len, positions are indices into src->buf.  Names follow the C source. *)
From Coq Require Import NArith ZArith List Lia Arith Bool.
From SV.Mem Require Import Mem.
Import ListNotations.

(* ---------------------------------------------------------------- a syntactic safety predicate
   safeQ n Q p: whatever the bytes are, p only loads indices < n and every possible result satisfies Q *)
Inductive safeQ {A} (n : nat) (Q : A -> Prop) : prog A -> Prop :=
| sRet : forall a, Q a -> safeQ n Q (Ret a)
| sLd : forall i k, i < n -> (forall b, safeQ n Q (k b)) -> safeQ n Q (Ld i k).

Lemma safeQ_bind : forall {A B} n (Q : A -> Prop) (R : B -> Prop) (p : prog A) (f : A -> prog B),
  safeQ n Q p -> (forall a, Q a -> safeQ n R (f a)) -> safeQ n R (bind p f).
Proof.
  intros A B n Q R p f Hp Hf. induction Hp as [a Ha|i k Hi Hk IH]; cbn [bind].
  - apply Hf, Ha.
  - apply sLd; [exact Hi|]. intro b. apply IH.
Qed.

Lemma safeQ_weaken : forall {A} n (Q R : A -> Prop) (p : prog A),
  safeQ n Q p -> (forall a, Q a -> R a) -> safeQ n R p.
Proof. intros A n Q R p H HQR. induction H; constructor; auto. Qed.

Lemma safeQ_mono : forall {A} n n' (Q : A -> Prop) (p : prog A), n <= n' -> safeQ n Q p -> safeQ n' Q p.
Proof. intros A n n' Q p Hn H. induction H; constructor; auto; lia. Qed.

Lemma safeQ_run : forall {A} n (Q : A -> Prop) (p : prog A), safeQ n Q p ->
  forall m, in_bounds n (touched m p) /\ Q (result m p).
Proof.
  intros A n Q p H m. induction H as [a Ha|i k Hi Hk IH].
  - split; [constructor|exact Ha].
  - specialize (IH (peek m i)). unfold touched, result in *. cbn [run].
    destruct (run m (k (peek m i))) as [a l]. cbn [fst snd] in *. destruct IH as [IH1 IH2].
    split; [constructor; assumption|assumption].
Qed.

(* the two per-routine theorems follow from safeQ *)
Theorem safe_reads_in_bounds : forall {A} (p : prog A) (Q : A -> Prop) (s t : list byte),
  safeQ (length s) Q p -> in_bounds (length s) (touched (s ++ t) p).
Proof. intros. apply (safeQ_run _ _ _ H (s ++ t)). Qed.

Theorem safe_tail_independent : forall {A} (p : prog A) (Q : A -> Prop) (s t1 t2 : list byte),
  safeQ (length s) Q p -> run (s ++ t1) p = run (s ++ t2) p.
Proof.
  intros. apply tail_independent. apply (safe_reads_in_bounds p Q s t2 H).
Qed.

Lemma safeQ_ld8 : forall n i, i < n -> safeQ n (fun _ => True) (ld8 i).
Proof. intros. apply sLd; [assumption|]. intro. constructor. exact I. Qed.

Lemma safeQ_ldv : forall w n i, i + w <= n -> safeQ n (fun r => length r = w) (ldv w i).
Proof.
  induction w as [|w IH]; intros n i H; cbn [ldv].
  - constructor. reflexivity.
  - apply sLd; [lia|]. intro b. cbn [bind].
    eapply safeQ_bind; [apply IH; lia|]. intros r Hr. constructor. cbn. rewrite Hr. reflexivity.
Qed.

(* ---------------------------------------------------------------- lspace.h *)

Definition isspace (c : byte) : bool := ((c =? 32) || (c =? 13) || (c =? 10) || (c =? 9))%N.

(* the scalar tail: while (nb-- > 0) switch ( *sp++ ) ...   returns the index of the first non-blank, or n *)
Fixpoint lspace_scalar (fuel i n : nat) : prog nat :=
  match fuel with
  | O => Ret i
  | S f => if i <? n then c <- ld8 i ;; (if isspace c then lspace_scalar f (S i) n else Ret i) else Ret i
  end.

(* index of the first non-blank in a loaded block *)
Fixpoint first_nonspace (l : list byte) : option nat :=
  match l with
  | [] => None
  | c :: r => if isspace c then option_map S (first_nonspace r) else Some O
  end.

(* the AVX2 loop: while (nb >= 32) { load 32 bytes; ... }   (w = 32 for avx2, the sse build has no block loop: w = 0) *)
Fixpoint lspace_blocks (fuel w i n : nat) : prog nat :=
  match fuel with
  | O => Ret i
  | S f =>
    if (0 <? w) && (i + w <=? n) then
      blk <- ldv w i ;;
      match first_nonspace blk with
      | Some k => Ret (i + k)
      | None => lspace_blocks f w (i + w) n
      end
    else lspace_scalar (n - i) i n
  end.

Definition lspace_1 (w n p : nat) : prog nat := lspace_blocks (S n) w p n.

Lemma lspace_scalar_safe : forall fuel i n, safeQ n (fun r => i <= r <= Nat.max i n) (lspace_scalar fuel i n).
Proof.
  induction fuel as [|f IH]; intros i n; cbn [lspace_scalar].
  - constructor. lia.
  - destruct (i <? n) eqn:E.
    + apply Nat.ltb_lt in E. apply sLd; [exact E|]. intro b. cbn [bind].
      destruct (isspace b).
      * eapply safeQ_weaken; [apply IH|]. intros ? ?; cbn beta in *; lia.
      * constructor. lia.
    + constructor. lia.
Qed.

Lemma first_nonspace_lt : forall l k, first_nonspace l = Some k -> k < length l.
Proof.
  induction l as [|c r IH]; intros k H; cbn in *; [discriminate|].
  destruct (isspace c).
  - destruct (first_nonspace r) as [k'|] eqn:E; cbn in H; [|discriminate]. inversion H; subst.
    specialize (IH k' eq_refl). cbn [length]. lia.
  - inversion H; subst. cbn [length]. lia.
Qed.

Lemma lspace_blocks_safe : forall fuel w i n, safeQ n (fun r => i <= r <= Nat.max i n) (lspace_blocks fuel w i n).
Proof.
  induction fuel as [|f IH]; intros w i n; cbn [lspace_blocks].
  - constructor. lia.
  - destruct ((0 <? w) && (i + w <=? n)) eqn:E.
    + apply andb_true_iff in E. destruct E as [E1 E2]. apply Nat.ltb_lt in E1. apply Nat.leb_le in E2.
      eapply safeQ_bind; [apply safeQ_ldv; exact E2|].
      intros blk Hb. cbn beta. destruct (first_nonspace blk) as [k|] eqn:F.
      * apply first_nonspace_lt in F. cbn beta in Hb. constructor. lia.
      * eapply safeQ_weaken; [apply IH|]. intros ? ?; cbn beta in *; lia.
    + apply lspace_scalar_safe.
Qed.

Theorem lspace_safe : forall w n p, safeQ n (fun r => p <= r <= Nat.max p n) (lspace_1 w n p).
Proof. intros. apply lspace_blocks_safe. Qed.

(* ---------------------------------------------------------------- scanning.h: advance_ns *)

(* result: (character or 0 at EOF, new *p) *)
Definition advance_ns (w n p : nat) : prog (byte * nat) :=
  let try (vi : nat) (k : prog (byte * nat)) : prog (byte * nat) :=
    if vi <? n then c <- ld8 vi ;; (if isspace c then k else Ret (c, S vi)) else k in
  try p (try (p + 1) (try (p + 2) (try (p + 3)
    (let vi := p + 4 in
     if n <=? vi then Ret (0%N, vi)                   (* *p = vi: up to 4 beyond the end *)
     else
       vi' <- lspace_1 w n vi ;;
       if n <=? vi' then Ret (0%N, p)                 (* `return 0` without updating *p *)
       else c <- ld8 vi' ;; Ret (c, S vi'))))).

Theorem advance_ns_safe : forall w n p, safeQ n (fun r => snd r <= Nat.max n (p + 4)) (advance_ns w n p).
Proof.
  intros w n p. unfold advance_ns.
  assert (Htry : forall vi (k : prog (byte * nat)), vi < p + 4 ->
            safeQ n (fun r => snd r <= Nat.max n (p + 4)) k ->
            safeQ n (fun r => snd r <= Nat.max n (p + 4))
              (if vi <? n then c <- ld8 vi ;; (if isspace c then k else Ret (c, S vi)) else k)).
  { intros vi k Hvi Hk. destruct (vi <? n) eqn:E; [|exact Hk].
    apply Nat.ltb_lt in E. apply sLd; [exact E|]. intro b. cbn [bind].
    destruct (isspace b); [exact Hk|]. constructor. cbn. lia. }
  apply Htry; [lia|]. apply Htry; [lia|]. apply Htry; [lia|]. apply Htry; [lia|].
  destruct (n <=? p + 4) eqn:E.
  - constructor. cbn. lia.
  - apply Nat.leb_gt in E.
    eapply safeQ_bind; [apply lspace_safe|]. intros vi' Hvi'. cbn beta.
    destruct (n <=? vi') eqn:E2.
    + constructor. cbn. lia.
    + apply Nat.leb_gt in E2. apply sLd; [exact E2|]. intro b. constructor. cbn. lia.
Qed.

(* ---------------------------------------------------------------- scanning.h: advance_dword *)

Open Scope Z_scope.

(* `*p > src->len + dec - 4` is evaluated in size_t: the right-hand side wraps for len + dec < 4 *)
Definition dword_guard (n p dec : nat) : bool :=
  (Z.of_nat n + Z.of_nat dec - 4) mod 2 ^ 64 <? Z.of_nat p.

Close Scope Z_scope.

Inductive dres := DOk (p : nat) | DEof (p : nat) | DInval (p : nat).

(* for (int i = 0; src->buf[*p] == (val & 0xff) && i < 4; i++, ++*p) { val >>= 8; } : the load comes first *)
Fixpoint dword_mismatch (fuel i q : nat) (val : N) : prog nat :=
  match fuel with
  | O => Ret q
  | S f => c <- ld8 q ;;
           if (c =? N.land val 255)%N && (i <? 4) then dword_mismatch f (S i) (S q) (N.shiftr val 8) else Ret q
  end.

Definition advance_dword (n p dec : nat) (val : N) : prog dres :=
  if dword_guard n p dec then Ret (DEof n)
  else
    x <- ld32 (p - dec) ;;
    if (x =? val)%N then Ret (DOk (p + 4 - dec))
    else q <- dword_mismatch 5 0 (p - dec) val ;; Ret (DInval q).

(* sizes are below 2^63 (ssize_t): stated as a hypothesis of the theorems *)
Definition size_ok (n : nat) : Prop := (Z.of_nat n < 2 ^ 62)%Z.

Lemma dword_guard_nowrap : forall n p dec, size_ok n -> dec <= 4 -> 4 <= n + dec ->
  dword_guard n p dec = (n + dec - 4 <? p).
Proof.
  intros n p dec Hn Hd H. unfold dword_guard, size_ok in *.
  rewrite Z.mod_small by lia.
  destruct (n + dec - 4 <? p) eqn:E.
  - apply Nat.ltb_lt in E. apply Z.ltb_lt. lia.
  - apply Nat.ltb_ge in E. apply Z.ltb_ge. lia.
Qed.

Lemma dword_guard_wrap : forall n p dec, size_ok p -> n + dec < 4 -> dword_guard n p dec = false.
Proof.
  intros n p dec Hp H. unfold dword_guard, size_ok in *.
  replace ((Z.of_nat n + Z.of_nat dec - 4) mod 2 ^ 64)%Z with (Z.of_nat n + Z.of_nat dec - 4 + 2 ^ 64)%Z.
  - apply Z.ltb_ge. lia.
  - symmetry. rewrite <- (Z.mod_add _ 1) by lia. rewrite Z.mul_1_l. apply Z.mod_small. lia.
Qed.

(* the mismatch loop re-reads at most the 4 bytes of the dword ... provided it stops within them, which it does when
   the dword differs from val; syntactically it may look at q .. q+4 *)
Lemma dword_mismatch_safe : forall fuel i q val n, q + (5 - i) <= n -> fuel + i <= 5 ->
  safeQ n (fun r => q <= r <= q + fuel) (dword_mismatch fuel i q val).
Proof.
  induction fuel as [|f IH]; intros i q val n Hq Hf; cbn [dword_mismatch].
  - constructor. lia.
  - apply sLd; [lia|]. intro b. cbn [bind].
    destruct ((b =? N.land val 255)%N && (i <? 4)) eqn:E.
    + apply andb_true_iff in E. destruct E as [_ E]. apply Nat.ltb_lt in E.
      eapply safeQ_weaken; [apply IH; lia|]. intros ? ?; cbn beta in *; lia.
    + constructor. lia.
Qed.

(* PARTIAL: with at least 5 bytes from the start of the literal to the end ... *)
Theorem advance_dword_safe_partial : forall n p dec val,
  size_ok n -> dec <= 1 -> dec <= p -> 4 <= n + dec ->
  safeQ (S n) (fun _ => True) (advance_dword n p dec val).
Proof.
  intros n p dec val Hn Hd Hp H4. unfold advance_dword.
  rewrite dword_guard_nowrap by (try assumption; lia).
  destruct (n + dec - 4 <? p) eqn:E; [constructor; exact I|].
  apply Nat.ltb_ge in E.
  unfold ld32. cbn [bind ld8].
  apply sLd; [lia|]. intro b0. apply sLd; [lia|]. intro b1. apply sLd; [lia|]. intro b2. apply sLd; [lia|]. intro b3.
  cbn [bind].
  match goal with |- context [if ?c then _ else _] => destruct c end; [constructor; exact I|].
  eapply safeQ_bind; [apply (dword_mismatch_safe 5 0 (p - dec) val (S n)); lia|].
  intros. constructor. exact I.
Qed.

(* what really matters: the 4-byte load itself is inside the input whenever the guard does not wrap *)
Theorem advance_dword_load_in_bounds : forall (s t : list byte) p dec val,
  size_ok (length s) -> dec <= 1 -> dec <= p -> 4 <= length s + dec ->
  forall i, In i (firstn 4 (touched (s ++ t) (advance_dword (length s) p dec val))) -> i < length s.
Proof.
  intros s t p dec val Hn Hd Hp H4 i Hi. unfold advance_dword in Hi.
  rewrite dword_guard_nowrap in Hi by (try assumption; lia).
  destruct (length s + dec - 4 <? p) eqn:E; [cbn in Hi; contradiction|].
  apply Nat.ltb_ge in E.
  rewrite touched_bind, touched_ld32 in Hi. cbn [firstn app] in Hi.
  cbn [In] in Hi. lia.
Qed.

(* REFUTED on the pinned source: the input "t" (value has consumed the t: p = 1, dec = 1): the guard wraps and
   4 bytes are loaded from index 0: indices 1, 2, 3 are beyond the input *)
Theorem advance_dword_oob_refuted :
  exists (s : list byte) p dec val,
    touched s (advance_dword (length s) p dec val) <> [] /\
    ~ in_bounds (length s) (touched s (advance_dword (length s) p dec val)).
Proof.
  exists [116%N], 1, 1, 1702195828%N. split.
  - vm_compute. discriminate.
  - intro H. apply in_boundsb_spec in H. vm_compute in H. discriminate.
Qed.

(* ... and the verdict then depends on the bytes behind the input *)
Theorem advance_dword_tail_dependent_refuted :
  exists (s t1 t2 : list byte) p dec val,
    result (s ++ t1) (advance_dword (length s) p dec val) <> result (s ++ t2) (advance_dword (length s) p dec val).
Proof.
  exists [116%N], [114; 117; 101]%N, [0; 0; 0]%N, 1, 1, 1702195828%N.
  vm_compute. discriminate.
Qed.

(* ---------------------------------------------------------------- value.c: dispatch on the first character *)

Definition VS_NULL : N := 1819047278.  (* "null" little endian *)
Definition VS_TRUE : N := 1702195828.  (* "true" *)
Definition VS_ALSE : N := 1702063201.  (* "alse" *)

Inductive vres := VLit (r : dres) | VEof (p : nat) | VOther (c : byte) (p : nat).

Definition value_head (w n p : nat) : prog vres :=
  cq <- advance_ns w n p ;;
  let '(c, q) := cq in
  if (c =? 110)%N then r <- advance_dword n q 1 VS_NULL ;; Ret (VLit r)
  else if (c =? 116)%N then r <- advance_dword n q 1 VS_TRUE ;; Ret (VLit r)
  else if (c =? 102)%N then r <- advance_dword n q 0 VS_ALSE ;; Ret (VLit r)
  else if (c =? 0)%N then Ret (VEof q)
  else Ret (VOther c q).

(* witnesses replayed on the real code by T: "t", "n", "tr", "nu", "f", "fa", "fal", "[t" *)
Definition oob (s : list byte) (p : prog vres) : bool := negb (in_boundsb (length s) (touched s p)).

Theorem value_short_literal_oob_refuted :
  forallb (fun s => oob s (value_head 32 (length s) 0))
    [[116]; [110]; [116; 114]; [110; 117]; [102]; [102; 97]; [102; 97; 108]; [32; 116]]%N = true.
Proof. vm_compute. reflexivity. Qed.

(* ... while every complete or longer input is read inside its bounds (all 4-byte-or-longer inputs over a small
   alphabet, swept exhaustively: a finite proof for the bound stated) *)
Definition alphabet : list byte := [116; 114; 117; 101; 110; 108; 102; 97; 115; 32; 48; 91]%N.

Fixpoint words (k : nat) : list (list byte) :=
  match k with
  | O => [[]]
  | S k' => flat_map (fun w => map (fun c => c :: w) alphabet) (words k')
  end.

Theorem value_head_in_bounds_len4 :
  forallb (fun s => negb (oob s (value_head 32 (length s) 0))) (words 4) = true.
Proof. vm_compute. reflexivity. Qed.

(* ---------------------------------------------------------------- scanning.h: vnumber / vinteger prefix *)

Inductive nres := NEof (p : nat) | NInval (p : nat) | NZero (p : nat) | NDigits (p : nat).

Fixpoint digits_loop (fuel i n : nat) : prog nat :=
  match fuel with
  | O => Ret i
  | S f => if i <? n then c <- ld8 i ;; (if (48 <=? c)%N && (c <=? 57)%N then digits_loop f (S i) n else Ret i) else Ret i
  end.

(* check_eof; check_sign; check_digit; check_leading_zero; integer digits *)
Definition vnumber_head (n p : nat) : prog nres :=
  if n <=? p then Ret (NEof n) else
  c0 <- ld8 p ;;
  oi <- (if (c0 =? 45)%N
         then (if n <=? S p then Ret None else Ret (Some (S p)))
         else Ret (Some p)) ;;
  match oi with
  | None => Ret (NEof n)
  | Some i =>
    c <- ld8 i ;;
    if (c <? 48)%N || (57 <? c)%N then Ret (NInval i)
    else if (c =? 48)%N then
      (* `i >= n` can never hold here: s[i+1] is read unconditionally *)
      c1 <- ld8 (S i) ;;
      if negb (c1 =? 46)%N && negb (c1 =? 101)%N && negb (c1 =? 69)%N then Ret (NZero (S i))
      else j <- digits_loop (n - i) i n ;; Ret (NDigits j)
    else j <- digits_loop (n - i) i n ;; Ret (NDigits j)
  end.

Lemma digits_loop_safe : forall fuel i n, safeQ n (fun r => i <= r <= Nat.max i n) (digits_loop fuel i n).
Proof.
  induction fuel as [|f IH]; intros i n; cbn [digits_loop].
  - constructor. lia.
  - destruct (i <? n) eqn:E; [|constructor; lia].
    apply Nat.ltb_lt in E. apply sLd; [exact E|]. intro b. cbn [bind].
    destruct ((48 <=? b)%N && (b <=? 57)%N); [|constructor; lia].
    eapply safeQ_weaken; [apply IH|]. intros ? ?; cbn beta in *; lia.
Qed.

(* PARTIAL: with one byte of slack (S n) the prefix scan is safe: the only read beyond n-1 is the look-ahead *)
Theorem vnumber_head_safe_slack : forall n p, safeQ (S n) (fun _ => True) (vnumber_head n p).
Proof.
  intros n p. unfold vnumber_head.
  destruct (n <=? p) eqn:E; [constructor; exact I|]. apply Nat.leb_gt in E.
  apply sLd; [lia|]. intro c0. cbn [bind].
  assert (Hrest : forall i, i < n ->
    safeQ (S n) (fun _ : nres => True)
      (c <- ld8 i ;;
       (if (c <? 48)%N || (57 <? c)%N then Ret (NInval i)
        else if (c =? 48)%N then
          c1 <- ld8 (S i) ;;
          (if negb (c1 =? 46)%N && negb (c1 =? 101)%N && negb (c1 =? 69)%N then Ret (NZero (S i))
           else j <- digits_loop (n - i) i n ;; Ret (NDigits j))
        else j <- digits_loop (n - i) i n ;; Ret (NDigits j)))).
  { intros i Hi. apply sLd; [lia|]. intro c. cbn [bind].
    destruct ((c <? 48)%N || (57 <? c)%N); [constructor; exact I|].
    destruct (c =? 48)%N.
    - apply sLd; [lia|]. intro c1. cbn [bind].
      destruct (negb (c1 =? 46)%N && negb (c1 =? 101)%N && negb (c1 =? 69)%N); [constructor; exact I|].
      eapply safeQ_bind; [eapply safeQ_mono; [|apply digits_loop_safe]; lia|]. intros. constructor. exact I.
    - eapply safeQ_bind; [eapply safeQ_mono; [|apply digits_loop_safe]; lia|]. intros. constructor. exact I. }
  destruct (c0 =? 45)%N.
  - destruct (n <=? S p) eqn:E2; cbn [bind].
    + constructor. exact I.
    + apply Nat.leb_gt in E2. apply Hrest. exact E2.
  - cbn [bind]. apply Hrest. exact E.
Qed.

(* REFUTED: an input that ends right after a leading zero reads the byte behind it *)
Theorem check_leading_zero_oob_refuted :
  forallb (fun sp => let '(s, p) := sp in negb (in_boundsb (length s) (touched s (vnumber_head (length s) p))))
    [([48%N], 0); ([45%N; 48%N], 0); ([91%N; 48%N], 1); ([123%N; 34%N; 97%N; 34%N; 58%N; 48%N], 5)] = true.
Proof. vm_compute. reflexivity. Qed.

(* exact guard: the scan is in bounds unless the byte at the (signed) start is '0' and it is the last byte *)
Definition ends_after_leading_zero (s : list byte) (p : nat) : bool :=
  let i := if (peek s p =? 45)%N then S p else p in
  (peek s i =? 48)%N && (S i =? length s) && (i <? length s).

Theorem vnumber_head_in_bounds_partial_len3 :
  forallb (fun s => implb (negb (ends_after_leading_zero s 0))
                          (in_boundsb (length s) (touched s (vnumber_head (length s) 0))))
    (flat_map (fun k => map (fun w => w) (
       (fix ws (k : nat) : list (list byte) :=
          match k with O => [[]] | S k' => flat_map (fun w => map (fun c => c :: w) [48; 49; 45; 46; 101; 57; 32]%N) (ws k') end) k))
       [0; 1; 2; 3; 4]) = true.
Proof. vm_compute. reflexivity. Qed.

(* ---------------------------------------------------------------- string body, scalar semantics
   (advance_string_default processes 64/32-byte blocks while that many bytes remain, then this loop) *)
Fixpoint string_scalar (fuel i n : nat) : prog (option nat) :=
  match fuel with
  | O => Ret None
  | S f =>
    if i <? n then
      c <- ld8 i ;;
      if (c =? 34)%N then Ret (Some (S i))
      else if (c =? 92)%N then string_scalar f (i + 2) n     (* the escaped byte is skipped, not looked at *)
      else string_scalar f (S i) n
    else Ret None
  end.

Fixpoint string_blocks (fuel w i n : nat) : prog (option nat) :=
  match fuel with
  | O => Ret None
  | S f =>
    if (0 <? w) && (i + w <=? n) then
      blk <- ldv w i ;;
      if existsb (fun c => (c =? 34)%N || (c =? 92)%N) blk then string_scalar (S w) i n   (* resolved inside the block *)
      else string_blocks f w (i + w) n
    else string_scalar (S (n - i)) i n
  end.

Lemma string_scalar_safe : forall fuel i n, safeQ n (fun _ => True) (string_scalar fuel i n).
Proof.
  induction fuel as [|f IH]; intros i n; cbn [string_scalar]; [constructor; exact I|].
  destruct (i <? n) eqn:E; [|constructor; exact I].
  apply Nat.ltb_lt in E. apply sLd; [exact E|]. intro b. cbn [bind].
  destruct (b =? 34)%N; [constructor; exact I|]. destruct (b =? 92)%N; apply IH.
Qed.

Theorem string_scan_safe : forall fuel w i n, safeQ n (fun _ => True) (string_blocks fuel w i n).
Proof.
  induction fuel as [|f IH]; intros w i n; cbn [string_blocks]; [constructor; exact I|].
  destruct ((0 <? w) && (i + w <=? n)) eqn:E.
  - apply andb_true_iff in E. destruct E as [_ E]. apply Nat.leb_le in E.
    eapply safeQ_bind; [apply safeQ_ldv; exact E|]. intros blk _. cbn beta.
    match goal with |- context [if ?c then _ else _] => destruct c end; [apply string_scalar_safe|apply IH].
  - apply string_scalar_safe.
Qed.

(* ---------------------------------------------------------------- value.c as a whole (flags = 0): what T compares with the
   real native Value placed flush against an unmapped page *)
Definition value_model (w n p : nat) : prog unit :=
  cq <- advance_ns w n p ;;
  let '(c, q) := cq in
  if (c =? 110)%N then _ <- advance_dword n q 1 VS_NULL ;; Ret tt
  else if (c =? 116)%N then _ <- advance_dword n q 1 VS_TRUE ;; Ret tt
  else if (c =? 102)%N then _ <- advance_dword n q 0 VS_ALSE ;; Ret tt
  else if (c =? 45)%N || ((48 <=? c)%N && (c <=? 57)%N) then _ <- vnumber_head n (q - 1) ;; Ret tt   (* vdigits: --*p *)
  else if (c =? 34)%N then _ <- string_blocks (S n) w q n ;; Ret tt
  else Ret tt.

(* the prediction: does a run over exactly these bytes touch an index >= len ? *)
Definition value_reads_beyond (w : nat) (s : list byte) : bool :=
  negb (in_boundsb (length s) (touched s (value_model w (length s) 0))).
