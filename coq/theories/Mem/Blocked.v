(* C05: reads of the W-blocked finders, in the read monad of Mem.v.
   - cascade_m: the monadic twin of Simd/Blocked.cascade (b-c10): vector rounds `while (n >= W)` / `if (n >= W)` of a list
     of widths, then the scalar tail.  Instances: lspace_1, memcchr_p32, memcchr_quote_unsafe (both SIMD builds).
     Proved: reads in bounds for ANY width list, and the result is i + find_scalar (= b-c10's cascade = the scalar spec).
   - memcchr_ws_m: the monadic twin of Str/Common.memcchr_ws (b-c20), the copy-on-the-fly finder of quote / html_escape
     (rounds need nb >= W and dn >= W; one partial round; scalar tail).  Proved: reads in bounds; agreement with b-c20's
     pure function by an exhaustive sweep with scaled-down widths.
   - guarded_tail: the deliberately page-guarded vector load (`if (!vec_cross_page(s, W)) load W bytes even though fewer
     remain`): it may touch bytes behind the input, but only in the 4 KiB page of an input byte, and the result does not
     depend on them. *)
From Coq Require Import NArith ZArith List Lia Arith Bool.
From SV.Mem Require Import Mem Scan.
From SV.Simd Require Import Blocked.
From SV.Str Require Import Common.
Import ListNotations.
Open Scope nat_scope.

Lemma skipn_nth_cons : forall (l : list N) i, i < length l -> skipn i l = nth i l 0%N :: skipn (S i) l.
Proof.
  induction l as [|x l IH]; intros i H; cbn [length] in H; [lia|].
  destruct i; [reflexivity|]. cbn [skipn nth]. apply IH. lia.
Qed.

Lemma skipn_skipn_add : forall (l : list N) i W, skipn W (skipn i l) = skipn (i + W) l.
Proof.
  induction l as [|x l IH]; intros i W; [rewrite !skipn_nil; reflexivity|].
  destruct i; [reflexivity|]. cbn [skipn Nat.add]. apply IH.
Qed.

Section CascadeM.
  Variable p : N -> bool.

  Fixpoint scalar_m (fuel i n : nat) : prog nat :=
    match fuel with
    | O => Ret i
    | S f => if i <? n then c <- ld8 i ;; (if p c then Ret i else scalar_m f (S i) n) else Ret i
    end.

  (* while (n >= W) { load W; test; advance }   inl = found, inr = where the next phase starts *)
  Fixpoint loop_m (W fuel i n : nat) : prog (nat + nat) :=
    match fuel with
    | O => Ret (inr i)
    | S f =>
      if i + W <=? n then
        blk <- ldv W i ;;
        match block_step p W blk with
        | Some k => Ret (inl (i + k))
        | None => loop_m W f (i + W) n
        end
      else Ret (inr i)
    end.

  Fixpoint cascade_m (ps : list phase) (i n : nat) : prog nat :=
    match ps with
    | [] => scalar_m (n - i) i n
    | Loop W :: rest =>
      r <- loop_m W (S (n - i)) i n ;;
      match r with inl k => Ret k | inr j => cascade_m rest j n end
    | Once W :: rest =>
      if i + W <=? n then
        blk <- ldv W i ;;
        match block_step p W blk with
        | Some k => Ret (i + k)
        | None => cascade_m rest (i + W) n
        end
      else cascade_m rest i n
    end.

  Lemma scalar_m_safe : forall fuel i n, safeQ n (fun r => i <= r) (scalar_m fuel i n).
  Proof.
    induction fuel as [|f IH]; intros i n; cbn [scalar_m]; [constructor; lia|].
    destruct (i <? n) eqn:E; [|constructor; lia]. apply Nat.ltb_lt in E.
    apply sLd; [exact E|]. intro b. cbn [bind]. destruct (p b); [constructor; lia|].
    eapply safeQ_weaken; [apply IH|]. intros ? ?; cbn beta in *; lia.
  Qed.

  Lemma loop_m_safe : forall W fuel i n,
    safeQ n (fun r => match r with inl k => i <= k | inr j => i <= j end) (loop_m W fuel i n).
  Proof.
    intros W. induction fuel as [|f IH]; intros i n; cbn [loop_m]; [constructor; lia|].
    destruct (i + W <=? n) eqn:E; [|constructor; lia]. apply Nat.leb_le in E.
    eapply safeQ_bind; [apply safeQ_ldv; exact E|]. intros blk _. cbn beta.
    destruct (block_step p W blk); [constructor; lia|].
    eapply safeQ_weaken; [apply IH|]. intros [k|j] H; cbn beta in *; lia.
  Qed.

  (* reads in bounds, whatever the list of widths *)
  Theorem cascade_m_safe : forall ps i n, safeQ n (fun r => i <= r) (cascade_m ps i n).
  Proof.
    induction ps as [|ph rest IH]; intros i n; cbn [cascade_m]; [apply scalar_m_safe|].
    destruct ph as [W|W].
    - eapply safeQ_bind; [apply loop_m_safe|]. intros [k|j] H; cbn beta in *; [constructor; lia|].
      eapply safeQ_weaken; [apply IH|]. intros ? ?; cbn beta in *; lia.
    - destruct (i + W <=? n) eqn:E; [|apply IH]. apply Nat.leb_le in E.
      eapply safeQ_bind; [apply safeQ_ldv; exact E|]. intros blk _. cbn beta.
      destruct (block_step p W blk); [constructor; lia|].
      eapply safeQ_weaken; [apply IH|]. intros ? ?; cbn beta in *; lia.
  Qed.

  (* ---- what it computes: i + find_scalar of the rest of the input *)

  Lemma result_ld8 : forall m i, result m (ld8 i) = peek m i.
  Proof. reflexivity. Qed.
  Lemma result_ret : forall {A} m (a : A), result m (Ret a) = a.
  Proof. reflexivity. Qed.

  Lemma result_ldv : forall W m i, i + W <= length m -> result m (ldv W i) = firstn W (skipn i m).
  Proof.
    induction W as [|W IH]; intros m i H; [reflexivity|].
    cbn [ldv]. rewrite result_bind, result_ld8, result_bind. cbn [result run fst].
    rewrite IH by lia.
    assert (Hi : i < length m) by lia.
    rewrite (skipn_nth_cons m i Hi) at 1.
    reflexivity.
  Qed.

  Lemma skipn_app_l : forall (s t : list N) i, i <= length s -> skipn i (s ++ t) = skipn i s ++ t.
  Proof. intros s t i H. rewrite skipn_app. replace (i - length s) with 0 by lia. reflexivity. Qed.

  Lemma firstn_skipn_app : forall (s t : list N) i W, i + W <= length s ->
    firstn W (skipn i (s ++ t)) = firstn W (skipn i s).
  Proof.
    intros s t i W H. rewrite skipn_app_l by lia. rewrite firstn_app.
    rewrite skipn_length. replace (W - (length s - i)) with 0 by lia. cbn [firstn]. apply app_nil_r.
  Qed.

  Lemma scalar_m_result : forall fuel (s t : list N) i, length s - i <= fuel -> i <= length s ->
    result (s ++ t) (scalar_m fuel i (length s)) = i + find_scalar p (skipn i s).
  Proof.
    induction fuel as [|f IH]; intros s t i Hf Hi; cbn [scalar_m].
    - assert (i = length s) by lia. subst i. rewrite skipn_all. cbn. lia.
    - destruct (i <? length s) eqn:E.
      + apply Nat.ltb_lt in E. rewrite result_bind, result_ld8, peek_app_l by exact E.
        rewrite (skipn_nth_cons s i E). cbn [find_scalar]. unfold peek, Mem.byte.
        destruct (p (nth i s 0%N)); [change (i = i + 0); lia|].
        rewrite IH by lia. lia.
      + apply Nat.ltb_ge in E. assert (i = length s) by lia. subst i. rewrite skipn_all. cbn. lia.
  Qed.

  Lemma loop_m_result : forall W, W > 0 -> forall fuel (s t : list N) i, length s - i < fuel -> i <= length s ->
    match result (s ++ t) (loop_m W fuel i (length s)) with
    | inl k => k = i + find_scalar p (skipn i s)
    | inr j => i <= j <= length s /\ i + find_scalar p (skipn i s) = j + find_scalar p (skipn j s)
    end.
  Proof.
    intros W HW. induction fuel as [|f IH]; intros s t i Hf Hi; [lia|].
    cbn [loop_m]. destruct (i + W <=? length s) eqn:E.
    - apply Nat.leb_le in E. rewrite result_bind.
      rewrite result_ldv by (rewrite app_length; lia). rewrite firstn_skipn_app by exact E.
      pose proof (block_step_spec p W (skipn i s)) as Hs. rewrite skipn_length in Hs. specialize (Hs ltac:(lia)).
      assert (Hb : block_step p W (firstn W (skipn i s)) = block_step p W (skipn i s)).
      { unfold block_step. rewrite firstn_firstn. rewrite Nat.min_id. reflexivity. }
      rewrite Hb. destruct (block_step p W (skipn i s)) as [k|].
      + cbn. lia.
      + specialize (IH s t (i + W) ltac:(lia) ltac:(lia)).
        rewrite skipn_skipn_add in Hs.
        destruct (result (s ++ t) (loop_m W f (i + W) (length s))) as [k|j]; lia.
    - apply Nat.leb_gt in E. cbn. lia.
  Qed.

  Theorem cascade_m_result : forall ps, Forall (fun ph => width ph > 0) ps ->
    forall (s t : list N) i, i <= length s ->
    result (s ++ t) (cascade_m ps i (length s)) = i + find_scalar p (skipn i s).
  Proof.
    induction ps as [|ph rest IH]; intros Hall s t i Hi; cbn [cascade_m].
    - apply scalar_m_result; lia.
    - inversion Hall as [|x l Hw Hrest]; subst. specialize (IH Hrest). destruct ph as [W|W]; cbn [width] in Hw.
      + rewrite result_bind.
        pose proof (loop_m_result W Hw (S (length s - i)) s t i ltac:(lia) Hi) as L.
        destruct (result (s ++ t) (loop_m W (S (length s - i)) i (length s))) as [k|j]; [cbn; lia|].
        destruct L as [Lj Le]. rewrite IH by lia. lia.
      + destruct (i + W <=? length s) eqn:E; [|apply IH; exact Hi]. apply Nat.leb_le in E.
        rewrite result_bind, result_ldv by (rewrite app_length; lia). rewrite firstn_skipn_app by exact E.
        pose proof (block_step_spec p W (skipn i s)) as Hs. rewrite skipn_length in Hs. specialize (Hs ltac:(lia)).
        assert (Hb : block_step p W (firstn W (skipn i s)) = block_step p W (skipn i s)).
        { unfold block_step. rewrite firstn_firstn. rewrite Nat.min_id. reflexivity. }
        rewrite Hb. destruct (block_step p W (skipn i s)) as [k|]; [cbn; lia|].
        rewrite IH by lia. rewrite skipn_skipn_add in Hs. lia.
  Qed.

  (* ... which is b-c10's pure cascade, for every compilation *)
  Corollary cascade_m_is_cascade : forall ps, Forall (fun ph => width ph > 0) ps ->
    forall (s t : list N) i, i <= length s ->
    result (s ++ t) (cascade_m ps i (length s)) = i + cascade p ps (skipn i s).
  Proof. intros. rewrite cascade_m_result, cascade_eq_scalar by assumption. reflexivity. Qed.
End CascadeM.

(* the instances of native/lspace.h and native/parsing.h, both SIMD builds *)
Definition lspace_m (avx2 : bool) := cascade_m non_space (if avx2 then [Loop 32] else []).
Definition memcchr_p32_m (avx2 : bool) := cascade_m is_backslash (if avx2 then [Loop 32; Loop 16] else [Loop 16]).
Definition memcchr_quote_unsafe_m (avx2 : bool) :=
  cascade_m needs_quote (if avx2 then [Loop 32; Loop 16; Once 8; Once 4] else [Loop 16; Once 8; Once 4]).

Section FinderReads.
  Variables (s t t1 t2 : list N).
  Let n := length s.

  Theorem blocked_finders_read_in_bounds : forall avx2 i,
    in_bounds n (touched (s ++ t) (lspace_m avx2 i n)) /\
    in_bounds n (touched (s ++ t) (memcchr_p32_m avx2 i n)) /\
    in_bounds n (touched (s ++ t) (memcchr_quote_unsafe_m avx2 i n)).
  Proof. intros. repeat split; eapply safe_reads_in_bounds; apply cascade_m_safe. Qed.

  Theorem blocked_finders_tail_independent : forall avx2 i,
    run (s ++ t1) (lspace_m avx2 i n) = run (s ++ t2) (lspace_m avx2 i n) /\
    run (s ++ t1) (memcchr_p32_m avx2 i n) = run (s ++ t2) (memcchr_p32_m avx2 i n) /\
    run (s ++ t1) (memcchr_quote_unsafe_m avx2 i n) = run (s ++ t2) (memcchr_quote_unsafe_m avx2 i n).
  Proof. intros. repeat split; eapply safe_tail_independent; apply cascade_m_safe. Qed.

  (* and they compute what b-c10's Simd/Blocked.v says *)
  Theorem blocked_finders_results : forall avx2 i, i <= n ->
    result (s ++ t) (lspace_m avx2 i n) = i + find_scalar non_space (skipn i s) /\
    result (s ++ t) (memcchr_p32_m avx2 i n) = i + find_scalar is_backslash (skipn i s) /\
    result (s ++ t) (memcchr_quote_unsafe_m avx2 i n) = i + find_scalar needs_quote (skipn i s).
  Proof.
    intros avx2 i Hi. unfold lspace_m, memcchr_p32_m, memcchr_quote_unsafe_m.
    repeat split; apply cascade_m_result; try exact Hi; destruct avx2; repeat constructor.
  Qed.
End FinderReads.

(* ---------------------------------------------------------------- memcchr_ws (quote / html_escape finder, b-c20's Str/Common.v) *)

Section McWs.
  Variables (pv ps : N -> bool).

  (* `while (nb >= W && dn >= W)` *)
  Fixpoint mq_loop_m (fuel W i n pos dn : nat) : prog (Z + (nat * nat * nat)) :=
    match fuel with
    | O => Ret (inr (i, pos, dn))
    | S f =>
      if (i + W <=? n) && (W <=? dn) then
        blk <- ldv W i ;;
        let k := find_first pv blk in
        if k <? W then Ret (inl (Z.of_nat (pos + k))) else mq_loop_m f W (i + W) n (pos + W) (dn - W)
      else Ret (inr (i, pos, dn))
    end.

  (* `if (nb >= W)`: one W-byte test with a partial store *)
  Definition mq_partial_m (W i n pos dn : nat) : prog (option Z) :=
    if i + W <=? n then
      blk <- ldv W i ;;
      let fv := find_first pv blk in
      if fv <=? dn then Ret (Some (Z.of_nat (pos + fv))) else Ret (Some (- Z.of_nat (pos + dn) - 1)%Z)
    else Ret None.

  Fixpoint mq_scalar_m (fuel i n pos dn : nat) : prog Z :=
    match fuel with
    | O => Ret (Z.of_nat pos)
    | S f =>
      if i <? n then
        match dn with
        | O => Ret (- Z.of_nat pos - 1)%Z
        | S dn' => b <- ld8 i ;; if ps b then Ret (Z.of_nat pos) else mq_scalar_m f (S i) n (S pos) dn'
        end
      else Ret (Z.of_nat pos)
    end.

  Fixpoint memcchr_ws_m (ws : list nat) (i n pos dn : nat) : prog Z :=
    match ws with
    | [] => mq_scalar_m (n - i) i n pos dn
    | W :: ws' =>
      r <- mq_loop_m (n - i) W i n pos dn ;;
      match r with
      | inl z => Ret z
      | inr (i', pos', dn') =>
        o <- mq_partial_m W i' n pos' dn' ;;
        match o with
        | Some z => Ret z
        | None => memcchr_ws_m ws' i' n pos' dn'
        end
      end
    end.

  Lemma mq_scalar_m_safe : forall fuel i n pos dn, safeQ n (fun _ => True) (mq_scalar_m fuel i n pos dn).
  Proof.
    induction fuel as [|f IH]; intros i n pos dn; cbn [mq_scalar_m]; [constructor; exact I|].
    destruct (i <? n) eqn:E; [|constructor; exact I]. apply Nat.ltb_lt in E.
    destruct dn; [constructor; exact I|]. apply sLd; [exact E|]. intro b. cbn [bind].
    destruct (ps b); [constructor; exact I|apply IH].
  Qed.

  Lemma mq_loop_m_safe : forall fuel W i n pos dn, safeQ n (fun _ => True) (mq_loop_m fuel W i n pos dn).
  Proof.
    induction fuel as [|f IH]; intros W i n pos dn; cbn [mq_loop_m]; [constructor; exact I|].
    destruct ((i + W <=? n) && (W <=? dn)) eqn:E; [|constructor; exact I].
    apply andb_true_iff in E. destruct E as [E _]. apply Nat.leb_le in E.
    eapply safeQ_bind; [apply safeQ_ldv; exact E|]. intros blk _. cbn beta zeta.
    destruct (find_first pv blk <? W); [constructor; exact I|apply IH].
  Qed.

  Theorem memcchr_ws_m_safe : forall ws i n pos dn, safeQ n (fun _ => True) (memcchr_ws_m ws i n pos dn).
  Proof.
    induction ws as [|W ws IH]; intros i n pos dn; cbn [memcchr_ws_m]; [apply mq_scalar_m_safe|].
    eapply safeQ_bind; [apply mq_loop_m_safe|]. intros [z|[[i' pos'] dn']] _; [constructor; exact I|].
    eapply safeQ_bind with (Q := fun _ => True).
    - unfold mq_partial_m. destruct (i' + W <=? n) eqn:E; [|constructor; exact I]. apply Nat.leb_le in E.
      eapply safeQ_bind; [apply safeQ_ldv; exact E|]. intros blk _. cbn beta zeta.
      destruct (find_first pv blk <=? dn'); constructor; exact I.
    - intros [z|] _; [constructor; exact I|apply IH].
  Qed.
End McWs.

Theorem memcchr_quote_reads_in_bounds : forall ws (s t : list N) dn,
  in_bounds (length s) (touched (s ++ t) (memcchr_ws_m find_quote_lane single_special ws 0 (length s) 0 dn)) /\
  in_bounds (length s) (touched (s ++ t) (memcchr_ws_m find_html_lane find_html_lane ws 0 (length s) 0 dn)).
Proof. intros. split; eapply safe_reads_in_bounds; apply memcchr_ws_m_safe. Qed.

Theorem memcchr_quote_tail_independent : forall ws (s t1 t2 : list N) dn,
  run (s ++ t1) (memcchr_ws_m find_quote_lane single_special ws 0 (length s) 0 dn)
  = run (s ++ t2) (memcchr_ws_m find_quote_lane single_special ws 0 (length s) 0 dn).
Proof. intros. eapply safe_tail_independent. apply memcchr_ws_m_safe. Qed.

(* agreement with b-c20's pure memcchr_ws: exhaustive sweep, widths scaled down to [4;2] (the definition is generic in the
   width list), every source of length <= 6 over {plain, quote, control} and every dn <= 7 *)
Fixpoint strs (k : nat) : list (list N) :=
  match k with
  | O => [[]]
  | S k' => strs k' ++ flat_map (fun w => map (fun c => c :: w) [97; 34; 1]%N) (filter (fun w => Nat.eqb (length w) k') (strs k'))
  end.

Theorem memcchr_ws_m_agrees_sweep :
  forallb (fun s => forallb (fun dn =>
      Z.eqb (result s (memcchr_ws_m find_quote_lane single_special [4; 2] 0 (length s) 0 dn))
            (memcchr_ws [4; 2] find_quote_lane single_special s 0 dn))
    (seq 0 8)) (strs 6) = true.
Proof. vm_compute. reflexivity. Qed.

(* ---------------------------------------------------------------- the page-guarded over-read *)

(* `if (!vec_cross_page(s, W)) { load W bytes at s }` with fewer than W bytes remaining (scanning.h xmemcmpeq tail,
   skip_container_fast's last block copies through memcpy_p64 instead).  vec_cross_page(p, W) = (p & 4095) > 4096 - W *)
Definition cross_page (base i W : nat) : bool := 4096 - W <? (base + i) mod 4096.

(* compare the rem < W bytes at i with `key`: one W-byte load when it cannot leave the page, byte by byte otherwise *)
Fixpoint cmp_scalar (fuel i : nat) (key : list N) : prog bool :=
  match fuel, key with
  | _, [] => Ret true
  | O, _ => Ret true
  | S f, k :: ks => c <- ld8 i ;; if (c =? k)%N then cmp_scalar f (S i) ks else Ret false
  end.

Fixpoint list_eqb (a b : list N) : bool :=
  match a, b with
  | [], [] => true
  | x :: a', y :: b' => (x =? y)%N && list_eqb a' b'
  | _, _ => false
  end.

Definition guarded_tail (base W i : nat) (key : list N) : prog bool :=
  if cross_page base i W then cmp_scalar (length key) i key
  else blk <- ldv W i ;; Ret (list_eqb (firstn (length key) blk) key).   (* mask == 0 || ctz(mask) >= n *)

(* every byte it touches is an input byte or lies in the page of the input byte at i *)
Theorem guarded_tail_page_safe : forall base W i n key (m : list N),
  0 < W <= 4096 -> 0 < length key -> i + length key <= n ->
  page_safe base n (touched m (guarded_tail base W i key)).
Proof.
  intros base W i n key m HW Hk Hn. unfold guarded_tail.
  destruct (cross_page base i W) eqn:E.
  - (* scalar: inside the input *)
    apply in_bounds_page_safe.
    assert (H : forall fuel j ks, j + length ks <= n -> in_bounds n (touched m (cmp_scalar fuel j ks))).
    { induction fuel as [|f IH]; intros j ks Hj; destruct ks as [|k ks]; cbn [cmp_scalar]; try (constructor).
      - unfold touched in *. cbn [bind ld8 run]. cbn [length] in Hj.
        destruct ((peek m j =? k)%N).
        + specialize (IH (S j) ks ltac:(lia)). destruct (run m (cmp_scalar f (S j) ks)) as [a l]. cbn [snd] in *.
          constructor; [lia|exact IH].
        + cbn. constructor; [lia|constructor]. }
    apply H. exact Hn.
  - unfold cross_page in E. apply Nat.ltb_ge in E.
    rewrite touched_bind, touched_ldv. cbn [touched run snd]. rewrite app_nil_r.
    unfold page_safe. apply Forall_forall. intros x Hx. apply in_seq in Hx.
    destruct (Nat.lt_ge_cases x n) as [Hlt|Hge]; [left; exact Hlt|right].
    unfold same_page_as_last. destruct n as [|n']; [lia|].
    apply Nat.leb_le. unfold page_of, page_size.
    (* base+i and base+x are in the same page: (base+i) mod 4096 + W <= 4096 *)
    assert (Hpage : (base + x) / 4096 = (base + i) / 4096).
    { pose proof (Nat.div_mod (base + i) 4096 ltac:(lia)) as D.
      pose proof (Nat.mod_upper_bound (base + i) 4096 ltac:(lia)) as U.
      set (q := (base + i) / 4096) in *. set (r := (base + i) mod 4096) in *.
      assert (base + x = 4096 * q + (r + (x - i))) by lia.
      rewrite H. rewrite Nat.mul_comm. rewrite Nat.div_add_l by lia.
      rewrite (Nat.div_small (r + (x - i)) 4096) by lia. lia. }
    rewrite Hpage. apply Nat.div_le_mono; lia.
Qed.

(* the first k bytes of a W-byte load are the k bytes of memory at i, even if the rest of the load runs off the modelled memory *)
Lemma ldv_prefix : forall W (m : list N) i k, k <= W -> i + k <= length m ->
  firstn k (result m (ldv W i)) = firstn k (skipn i m).
Proof.
  induction W as [|W IH]; intros m i k Hk Hi.
  - assert (k = 0) by lia. subst k. reflexivity.
  - cbn [ldv]. rewrite result_bind, result_bind. change (result m (ld8 i)) with (peek m i).
    change (result m (Ret ?x)) with x.
    destruct k as [|k]; [reflexivity|].
    rewrite (skipn_nth_cons m i ltac:(lia)). cbn [firstn]. unfold peek, Mem.byte. f_equal. apply IH; lia.
Qed.

(* ... and its verdict is a function of the input bytes alone, although the load may look behind them *)
Theorem guarded_tail_result : forall base W i key (s t : list N),
  length key <= W -> i + length key <= length s ->
  result (s ++ t) (guarded_tail base W i key) = list_eqb (firstn (length key) (skipn i s)) key.
Proof.
  intros base W i key s t HW Hn. unfold guarded_tail.
  destruct (cross_page base i W).
  - assert (H : forall fuel j ks, length ks <= fuel -> j + length ks <= length s ->
                result (s ++ t) (cmp_scalar fuel j ks) = list_eqb (firstn (length ks) (skipn j s)) ks).
    { induction fuel as [|f IH]; intros j ks Hf Hj; destruct ks as [|k ks]; cbn [cmp_scalar length firstn list_eqb] in *; try reflexivity; try lia.
      rewrite result_bind. change (result (s ++ t) (ld8 j)) with (peek (s ++ t) j). rewrite peek_app_l by (unfold Mem.byte; lia).
      rewrite (skipn_nth_cons s j ltac:(lia)). cbn [firstn list_eqb]. unfold peek, Mem.byte.
      destruct ((nth j s 0 =? k)%N); [|reflexivity]. cbn [andb]. apply IH; lia. }
    apply H; [lia|exact Hn].
  - rewrite result_bind. change (result (s ++ t) (Ret ?x)) with x.
    rewrite ldv_prefix by (try rewrite app_length; lia).
    rewrite skipn_app. rewrite firstn_app. rewrite skipn_length.
    replace (length key - (length s - i)) with 0 by lia. cbn [firstn]. rewrite app_nil_r. reflexivity.
Qed.

Corollary guarded_tail_tail_independent : forall base W i key (s t1 t2 : list N),
  length key <= W -> i + length key <= length s ->
  result (s ++ t1) (guarded_tail base W i key) = result (s ++ t2) (guarded_tail base W i key).
Proof. intros. rewrite !guarded_tail_result by assumption. reflexivity. Qed.

Example guarded_tail_example :
  (* 3 bytes left, 16-byte load, input ends 90 bytes before the page end: the load touches indices behind the input *)
  let s := [1; 2; 3; 120; 121; 122]%N in
  result (s ++ repeat 9%N 13) (guarded_tail 4000 16 3 [120; 121; 122]%N) = true /\
  in_boundsb 6 (touched (s ++ repeat 9%N 13) (guarded_tail 4000 16 3 [120; 121; 122]%N)) = false /\
  faults 4000 6 (touched (s ++ repeat 9%N 13) (guarded_tail 4000 16 3 [120; 121; 122]%N)) = false.
Proof. vm_compute. repeat split; reflexivity. Qed.
