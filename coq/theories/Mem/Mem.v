(* C05: a read monad over memory = input ++ tail with an access log and a page model.

   Programs are interaction trees over one effect, "load the byte at index i" (Ld).  Wide loads (ld32, vector
   loads) are sequences of byte loads, so every byte touched is in the log.  Loops are written by fuel / structural
   recursion in Gallina and produce such trees.

   Generic theorem (tail_independent): if a run over input ++ t1 only touches indices < length input, then the
   run over input ++ t2 touches the same indices and returns the same result.  So per routine only
   `R_reads_in_bounds` has to be proved; `R_tail_independent` is a corollary. *)
From Coq Require Import NArith List Lia Arith Bool.
Import ListNotations.

Definition byte := N.

Inductive prog (A : Type) : Type :=
| Ret (a : A)
| Ld (i : nat) (k : byte -> prog A).
Arguments Ret {A} a.
Arguments Ld {A} i k.

Fixpoint bind {A B} (p : prog A) (f : A -> prog B) : prog B :=
  match p with
  | Ret a => f a
  | Ld i k => Ld i (fun b => bind (k b) f)
  end.

Notation "x <- p ;; q" := (bind p (fun x => q)) (at level 61, p at next level, right associativity).

Definition ld8 (i : nat) : prog byte := Ld i (fun b => Ret b).

(* memory: reading beyond everything that is mapped yields 0 in the model (the real machine faults - see `faults`) *)
Definition peek (m : list byte) (i : nat) : byte := nth i m 0%N.

(* run: result and the list of touched indices, in order *)
Fixpoint run {A} (m : list byte) (p : prog A) : A * list nat :=
  match p with
  | Ret a => (a, [])
  | Ld i k => let '(a, l) := run m (k (peek m i)) in (a, i :: l)
  end.

Definition result {A} (m : list byte) (p : prog A) : A := fst (run m p).
Definition touched {A} (m : list byte) (p : prog A) : list nat := snd (run m p).

Definition in_bounds (n : nat) (l : list nat) : Prop := Forall (fun i => i < n) l.
Definition in_boundsb (n : nat) (l : list nat) : bool := forallb (fun i => i <? n) l.

Lemma in_boundsb_spec : forall n l, in_boundsb n l = true <-> in_bounds n l.
Proof.
  intros n l. unfold in_boundsb, in_bounds. rewrite forallb_forall, Forall_forall.
  split; intros H x Hx; specialize (H x Hx); [apply Nat.ltb_lt|apply Nat.ltb_lt]; assumption.
Qed.

Lemma run_bind : forall {A B} (m : list byte) (p : prog A) (f : A -> prog B),
  run m (bind p f) =
  let '(a, l1) := run m p in let '(b, l2) := run m (f a) in (b, l1 ++ l2).
Proof.
  intros A B m p f. induction p as [a|i k IH]; cbn [bind run].
  - destruct (run m (f a)). reflexivity.
  - rewrite IH. destruct (run m (k (peek m i))) as [a l1]. destruct (run m (f a)) as [b l2]. reflexivity.
Qed.

Lemma peek_app_l : forall (s t : list byte) i, i < length s -> peek (s ++ t) i = peek s i.
Proof. intros. unfold peek. apply app_nth1. assumption. Qed.

(* ---- the generic theorem *)
Theorem tail_independent : forall {A} (p : prog A) (s t1 t2 : list byte),
  in_bounds (length s) (touched (s ++ t1) p) ->
  run (s ++ t2) p = run (s ++ t1) p.
Proof.
  intros A p. induction p as [a|i k IH]; intros s t1 t2 H.
  - reflexivity.
  - unfold touched in H. cbn [run] in *.
    destruct (run (s ++ t1) (k (peek (s ++ t1) i))) as [a l] eqn:E.
    cbn [snd] in H. inversion H as [|x l' Hi Hl]; subst.
    assert (Hp : peek (s ++ t2) i = peek (s ++ t1) i) by (rewrite !peek_app_l by assumption; reflexivity).
    rewrite Hp.
    rewrite (IH (peek (s ++ t1) i) s t1 t2).
    + rewrite E. reflexivity.
    + unfold touched. rewrite E. exact Hl.
Qed.

Corollary tail_independent_nil : forall {A} (p : prog A) (s t : list byte),
  in_bounds (length s) (touched s p) -> run (s ++ t) p = run s p.
Proof.
  intros A p s t H.
  rewrite <- (app_nil_r s) at 2. apply tail_independent. rewrite app_nil_r. exact H.
Qed.

(* ---- page model: the input ends at byte address `base + length input` ; the next page may be unmapped.
   A touched index faults iff it lies in a page after the page of the last input byte. *)
Definition page_size : nat := 4096.
Definition page_of (addr : nat) : nat := addr / page_size.

Definition same_page_as_last (base len i : nat) : bool :=
  match len with
  | O => false
  | S _ => page_of (base + i) <=? page_of (base + len - 1)
  end.

(* accesses allowed for deliberately page-guarded vector loads: inside the input, or in the page of its last byte *)
Definition page_safe (base len : nat) (l : list nat) : Prop :=
  Forall (fun i => i < len \/ same_page_as_last base len i = true) l.

(* would the run fault when the page after the last input byte is unmapped? *)
Definition faults (base len : nat) (l : list nat) : bool :=
  existsb (fun i => negb (i <? len) && negb (same_page_as_last base len i)) l.

Lemma in_bounds_page_safe : forall base len l, in_bounds len l -> page_safe base len l.
Proof. intros base len l H. unfold page_safe. eapply Forall_impl; [|exact H]. intros; left; assumption. Qed.

(* input flush against the page end: any index >= len is in the next page *)
Lemma flush_faults_iff : forall base len l, 0 < len -> (base + len) mod page_size = 0 ->
  faults base len l = negb (in_boundsb len l).
Proof.
  intros base len l Hlen Hflush. unfold faults, in_boundsb.
  induction l as [|i l IH]; [reflexivity|].
  cbn [existsb forallb]. rewrite IH. clear IH.
  destruct (i <? len) eqn:E; cbn [negb andb orb]; [reflexivity|].
  apply Nat.ltb_ge in E.
  assert (same_page_as_last base len i = false) as ->; [|reflexivity].
  unfold same_page_as_last. destruct len as [|len']; [lia|].
  apply Nat.leb_gt. unfold page_of, page_size in *.
  (* base + S len' = 4096 * q, so base + len' is in page q-1 and base + i >= 4096*q *)
  pose proof (Nat.div_mod (base + S len') 4096 ltac:(lia)) as D. rewrite Hflush in D.
  set (q := (base + S len') / 4096) in *.
  assert (base + S len' - 1 < 4096 * q) by lia.
  assert (4096 * q <= base + i) by lia.
  assert ((base + S len' - 1) / 4096 < q) by (apply Nat.div_lt_upper_bound; lia).
  assert (q <= (base + i) / 4096) by (apply Nat.div_le_lower_bound; lia).
  lia.
Qed.

(* ---- helpers for wide loads *)

(* little-endian 32-bit load as four byte loads *)
Definition ld32 (i : nat) : prog N :=
  b0 <- ld8 i ;; b1 <- ld8 (i + 1) ;; b2 <- ld8 (i + 2) ;; b3 <- ld8 (i + 3) ;;
  Ret (b0 + 256 * b1 + 65536 * b2 + 16777216 * b3)%N.

(* vector load of w bytes *)
Fixpoint ldv (w : nat) (i : nat) : prog (list byte) :=
  match w with
  | O => Ret []
  | S w' => b <- ld8 i ;; r <- ldv w' (S i) ;; Ret (b :: r)
  end.

Lemma touched_ld8 : forall m i, touched m (ld8 i) = [i].
Proof. reflexivity. Qed.

Lemma touched_ld32 : forall m i, touched m (ld32 i) = [i; i + 1; i + 2; i + 3].
Proof. reflexivity. Qed.

Lemma touched_ldv : forall w m i, touched m (ldv w i) = seq i w.
Proof.
  induction w as [|w IH]; intros m i; [reflexivity|].
  unfold touched in *. cbn [ldv]. rewrite run_bind. cbn [ld8 run].
  rewrite run_bind. specialize (IH m (S i)).
  destruct (run m (ldv w (S i))) as [r l] eqn:E. cbn [snd] in IH. subst l.
  cbn. rewrite app_nil_r. reflexivity.
Qed.

Lemma touched_bind : forall {A B} m (p : prog A) (f : A -> prog B),
  touched m (bind p f) = touched m p ++ touched m (f (result m p)).
Proof.
  intros. unfold touched, result. rewrite run_bind.
  destruct (run m p) as [a l1]. cbn [fst snd]. destruct (run m (f a)) as [b l2]. reflexivity.
Qed.

Lemma result_bind : forall {A B} m (p : prog A) (f : A -> prog B),
  result m (bind p f) = result m (f (result m p)).
Proof.
  intros. unfold result. rewrite run_bind.
  destruct (run m p) as [a l1]. cbn [fst]. destruct (run m (f a)) as [b l2]. reflexivity.
Qed.

Lemma in_bounds_app : forall n l1 l2, in_bounds n (l1 ++ l2) <-> in_bounds n l1 /\ in_bounds n l2.
Proof. intros. unfold in_bounds. apply Forall_app. Qed.
