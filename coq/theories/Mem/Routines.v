(* C05: per routine R, `R_reads_in_bounds` and `R_tail_independent` in run form (memory = input ++ tail). *)
From Coq Require Import NArith List Lia Arith Bool.
From SV.Mem Require Import Mem Scan.
Import ListNotations.

Section PerRoutine.
  Variables (s t t1 t2 : list byte).
  Let n := length s.

  Theorem lspace_reads_in_bounds : forall w p, in_bounds n (touched (s ++ t) (lspace_1 w n p)).
  Proof. intros. eapply safe_reads_in_bounds. apply lspace_safe. Qed.
  Theorem lspace_tail_independent : forall w p, run (s ++ t1) (lspace_1 w n p) = run (s ++ t2) (lspace_1 w n p).
  Proof. intros. eapply safe_tail_independent. apply lspace_safe. Qed.

  Theorem advance_ns_reads_in_bounds : forall w p, in_bounds n (touched (s ++ t) (advance_ns w n p)).
  Proof. intros. eapply safe_reads_in_bounds. apply advance_ns_safe. Qed.
  Theorem advance_ns_tail_independent : forall w p, run (s ++ t1) (advance_ns w n p) = run (s ++ t2) (advance_ns w n p).
  Proof. intros. eapply safe_tail_independent. apply advance_ns_safe. Qed.
  (* the cursor it returns may be up to 4 beyond the end (C07: positions outside the input) *)
  Theorem advance_ns_cursor_bound : forall w p, snd (result (s ++ t) (advance_ns w n p)) <= Nat.max n (p + 4).
  Proof. intros. apply (safeQ_run _ _ _ (advance_ns_safe w n p) (s ++ t)). Qed.

  Theorem string_scan_reads_in_bounds : forall w p, in_bounds n (touched (s ++ t) (string_blocks (S n) w p n)).
  Proof. intros. eapply safe_reads_in_bounds. apply string_scan_safe. Qed.
  Theorem string_scan_tail_independent : forall w p,
    run (s ++ t1) (string_blocks (S n) w p n) = run (s ++ t2) (string_blocks (S n) w p n).
  Proof. intros. eapply safe_tail_independent. apply string_scan_safe. Qed.

  Theorem digits_reads_in_bounds : forall p, in_bounds n (touched (s ++ t) (digits_loop (n - p) p n)).
  Proof. intros. eapply safe_reads_in_bounds. apply digits_loop_safe. Qed.
  Theorem digits_tail_independent : forall p, run (s ++ t1) (digits_loop (n - p) p n) = run (s ++ t2) (digits_loop (n - p) p n).
  Proof. intros. eapply safe_tail_independent. apply digits_loop_safe. Qed.

  (* vnumber prefix: everything it touches is < n + 1: at most ONE byte behind the input, and only ... *)
  Theorem vnumber_head_reads_at_most_one_beyond : forall p, in_bounds (S n) (touched (s ++ t) (vnumber_head n p)).
  Proof. intros. apply (safeQ_run _ _ _ (vnumber_head_safe_slack n p) (s ++ t)). Qed.

  (* advance_dword: whenever the size_t guard does not wrap, at most one byte behind the input is looked at and the 4-byte
     load itself is inside *)
  Theorem advance_dword_reads_partial : forall p dec val, size_ok n -> dec <= 1 -> dec <= p -> 4 <= n + dec ->
    in_bounds (S n) (touched (s ++ t) (advance_dword n p dec val)).
  Proof. intros. apply (safeQ_run _ _ _ (advance_dword_safe_partial n p dec val H H0 H1 H2) (s ++ t)). Qed.
End PerRoutine.

(* optdec newParser: the C parser works on a private copy `data[pos:] ++ padding`; whatever it reads below len + 64 is a
   function of the input alone (the caller's memory behind the input is never part of that copy) *)
Definition padding : list byte := [120; 34; 120]%N ++ repeat 0%N 61.

Theorem padded_copy_reads_private : forall {A} (p : prog A) (s t1 t2 : list byte),
  in_bounds (length s + 64) (touched ((s ++ padding) ++ t1) p) ->
  run ((s ++ padding) ++ t2) p = run ((s ++ padding) ++ t1) p.
Proof.
  intros A p s t1 t2 H. apply tail_independent.
  rewrite app_length. unfold padding. rewrite app_length, repeat_length. cbn [length].
  replace (length s + (3 + 61)) with (length s + 64) by lia. exact H.
Qed.

Example per_routine_nonvacuous :
  result ([32; 32; 116; 114; 117; 101] ++ [1; 2; 3])%N (advance_ns 32 6 0) = (116%N, 3) /\
  result ([34; 97; 34] ++ [34])%N (string_blocks 4 32 1 3) = Some 3.
Proof. vm_compute. split; reflexivity. Qed.
