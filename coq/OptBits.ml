open BinNat
open BinNums
open Datatypes
open List

type config = { cfg_EscapeHTML : bool; cfg_SortMapKeys : bool;
                cfg_CompactMarshaler : bool; cfg_NoQuoteTextMarshaler : 
                bool; cfg_NoNullSliceOrMap : bool; cfg_UseInt64 : bool;
                cfg_UseNumber : bool; cfg_UseUnicodeErrors : bool;
                cfg_DisallowUnknownFields : bool; cfg_CopyString : bool;
                cfg_ValidateString : bool;
                cfg_NoValidateJSONMarshaler : bool;
                cfg_NoValidateJSONSkip : bool; cfg_NoEncoderNewline : 
                bool; cfg_EncodeNullForInfOrNan : bool;
                cfg_CaseSensitive : bool }

(** val config_of_bits : bool list -> config **)

let config_of_bits l =
  { cfg_EscapeHTML = (nth O l false); cfg_SortMapKeys = (nth (S O) l false);
    cfg_CompactMarshaler = (nth (S (S O)) l false);
    cfg_NoQuoteTextMarshaler = (nth (S (S (S O))) l false);
    cfg_NoNullSliceOrMap = (nth (S (S (S (S O)))) l false); cfg_UseInt64 =
    (nth (S (S (S (S (S O))))) l false); cfg_UseNumber =
    (nth (S (S (S (S (S (S O)))))) l false); cfg_UseUnicodeErrors =
    (nth (S (S (S (S (S (S (S O))))))) l false); cfg_DisallowUnknownFields =
    (nth (S (S (S (S (S (S (S (S O)))))))) l false); cfg_CopyString =
    (nth (S (S (S (S (S (S (S (S (S O))))))))) l false); cfg_ValidateString =
    (nth (S (S (S (S (S (S (S (S (S (S O)))))))))) l false);
    cfg_NoValidateJSONMarshaler =
    (nth (S (S (S (S (S (S (S (S (S (S (S O))))))))))) l false);
    cfg_NoValidateJSONSkip =
    (nth (S (S (S (S (S (S (S (S (S (S (S (S O)))))))))))) l false);
    cfg_NoEncoderNewline =
    (nth (S (S (S (S (S (S (S (S (S (S (S (S (S O))))))))))))) l false);
    cfg_EncodeNullForInfOrNan =
    (nth (S (S (S (S (S (S (S (S (S (S (S (S (S (S O)))))))))))))) l false);
    cfg_CaseSensitive =
    (nth (S (S (S (S (S (S (S (S (S (S (S (S (S (S (S O))))))))))))))) l
      false) }

(** val froze : config -> coq_N * coq_N **)

let froze c =
  let e = N0 in
  let d = N0 in
  let e0 = if c.cfg_EscapeHTML then N.coq_lor e (Npos (Coq_xO Coq_xH)) else e
  in
  let e1 = if c.cfg_SortMapKeys then N.coq_lor e0 (Npos Coq_xH) else e0 in
  let e2 =
    if c.cfg_CompactMarshaler
    then N.coq_lor e1 (Npos (Coq_xO (Coq_xO Coq_xH)))
    else e1
  in
  let e3 =
    if c.cfg_NoQuoteTextMarshaler
    then N.coq_lor e2 (Npos (Coq_xO (Coq_xO (Coq_xO Coq_xH))))
    else e2
  in
  let e4 =
    if c.cfg_NoNullSliceOrMap
    then N.coq_lor e3 (Npos (Coq_xO (Coq_xO (Coq_xO (Coq_xO Coq_xH)))))
    else e3
  in
  let e5 =
    if c.cfg_ValidateString
    then N.coq_lor e4 (Npos (Coq_xO (Coq_xO (Coq_xO (Coq_xO (Coq_xO
           Coq_xH))))))
    else e4
  in
  let e6 =
    if c.cfg_NoValidateJSONMarshaler
    then N.coq_lor e5 (Npos (Coq_xO (Coq_xO (Coq_xO (Coq_xO (Coq_xO (Coq_xO
           Coq_xH)))))))
    else e5
  in
  let e7 =
    if c.cfg_NoEncoderNewline
    then N.coq_lor e6 (Npos (Coq_xO (Coq_xO (Coq_xO (Coq_xO (Coq_xO (Coq_xO
           (Coq_xO Coq_xH))))))))
    else e6
  in
  let e8 =
    if c.cfg_EncodeNullForInfOrNan
    then N.coq_lor e7 (Npos (Coq_xO (Coq_xO (Coq_xO (Coq_xO (Coq_xO (Coq_xO
           (Coq_xO (Coq_xO Coq_xH)))))))))
    else e7
  in
  let d0 =
    if c.cfg_NoValidateJSONSkip
    then N.coq_lor d (Npos (Coq_xO (Coq_xO (Coq_xO (Coq_xO (Coq_xO (Coq_xO
           Coq_xH)))))))
    else d
  in
  let d1 = if c.cfg_UseInt64 then N.coq_lor d0 (Npos Coq_xH) else d0 in
  let d2 = if c.cfg_UseNumber then N.coq_lor d1 (Npos (Coq_xO Coq_xH)) else d1
  in
  let d3 =
    if c.cfg_UseUnicodeErrors
    then N.coq_lor d2 (Npos (Coq_xO (Coq_xO Coq_xH)))
    else d2
  in
  let d4 =
    if c.cfg_DisallowUnknownFields
    then N.coq_lor d3 (Npos (Coq_xO (Coq_xO (Coq_xO Coq_xH))))
    else d3
  in
  let d5 =
    if c.cfg_CopyString
    then N.coq_lor d4 (Npos (Coq_xO (Coq_xO (Coq_xO (Coq_xO Coq_xH)))))
    else d4
  in
  let d6 =
    if c.cfg_ValidateString
    then N.coq_lor d5 (Npos (Coq_xO (Coq_xO (Coq_xO (Coq_xO (Coq_xO
           Coq_xH))))))
    else d5
  in
  let d7 =
    if c.cfg_CaseSensitive
    then N.coq_lor d6 (Npos (Coq_xO (Coq_xO (Coq_xO (Coq_xO (Coq_xO (Coq_xO
           (Coq_xO Coq_xH))))))))
    else d6
  in
  (e8, d7)
