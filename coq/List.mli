open Datatypes

val nth : nat -> 'a1 list -> 'a1 -> 'a1
