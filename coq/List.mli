
val forallb : ('a1 -> bool) -> 'a1 list -> bool
