
val negb : bool -> bool

type nat =
| O
| S of nat

type ('a, 'b) sum =
| Coq_inl of 'a
| Coq_inr of 'b

val length : 'a1 list -> nat

val app : 'a1 list -> 'a1 list -> 'a1 list

type comparison =
| Eq
| Lt
| Gt
