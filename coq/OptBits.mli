open BinNat
open BinNums
open Datatypes
open List

type config = { cfg_EscapeHTML : bool; cfg_SortMapKeys : bool;
                cfg_CompactMarshaler : bool; cfg_NoQuoteTextMarshaler : 
                bool; cfg_NoNullSliceOrMap : bool; cfg_UseInt64 : bool;
                cfg_UseNumber : bool; cfg_UseUnicodeErrors : bool;
                cfg_DisallowUnknownFields : bool; cfg_CopyString : bool;
                cfg_ValidateString : bool;
                cfg_NoValidateJSONMarshaler : bool;
                cfg_NoValidateJSONSkip : bool; cfg_NoEncoderNewline : 
                bool; cfg_EncodeNullForInfOrNan : bool;
                cfg_CaseSensitive : bool }

val config_of_bits : bool list -> config

val froze : config -> coq_N * coq_N
