
type nat =
| O
| S of nat


