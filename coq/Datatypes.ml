
(** val negb : bool -> bool **)

let negb = function
| true -> false
| false -> true

type nat =
| O
| S of nat

type ('a, 'b) sum =
| Coq_inl of 'a
| Coq_inr of 'b

(** val length : 'a1 list -> nat **)

let rec length = function
| [] -> O
| _ :: l' -> S (length l')

(** val app : 'a1 list -> 'a1 list -> 'a1 list **)

let rec app l m =
  match l with
  | [] -> m
  | a :: l1 -> a :: (app l1 m)

type comparison =
| Eq
| Lt
| Gt
