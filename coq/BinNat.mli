open BinNums
open BinPos
open Datatypes

module N :
 sig
  val compare : coq_N -> coq_N -> comparison

  val eqb : coq_N -> coq_N -> bool

  val leb : coq_N -> coq_N -> bool
 end
