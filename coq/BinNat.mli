open BinNums
open BinPos
open Datatypes

module N :
 sig
  val coq_lor : coq_N -> coq_N -> coq_N

  val to_nat : coq_N -> nat

  val of_nat : nat -> coq_N
 end
