open BinNums
open BinPos
open Datatypes

module N =
 struct
  (** val coq_lor : coq_N -> coq_N -> coq_N **)

  let coq_lor n m =
    match n with
    | N0 -> m
    | Npos p -> (match m with
                 | N0 -> n
                 | Npos q -> Npos (Pos.coq_lor p q))

  (** val to_nat : coq_N -> nat **)

  let to_nat = function
  | N0 -> O
  | Npos p -> Pos.to_nat p

  (** val of_nat : nat -> coq_N **)

  let of_nat = function
  | O -> N0
  | S n' -> Npos (Pos.of_succ_nat n')
 end
