open BinNums
open BinPos
open Datatypes

module N =
 struct
  (** val compare : coq_N -> coq_N -> comparison **)

  let compare n m =
    match n with
    | N0 -> (match m with
             | N0 -> Eq
             | Npos _ -> Lt)
    | Npos n' -> (match m with
                  | N0 -> Gt
                  | Npos m' -> Pos.compare n' m')

  (** val eqb : coq_N -> coq_N -> bool **)

  let eqb n m =
    match n with
    | N0 -> (match m with
             | N0 -> true
             | Npos _ -> false)
    | Npos p -> (match m with
                 | N0 -> false
                 | Npos q -> Pos.eqb p q)

  (** val leb : coq_N -> coq_N -> bool **)

  let leb x y =
    match compare x y with
    | Gt -> false
    | _ -> true
 end
