open BinNums
open Datatypes
open Nat

module Pos =
 struct
  (** val succ : positive -> positive **)

  let rec succ = function
  | Coq_xI p -> Coq_xO (succ p)
  | Coq_xO p -> Coq_xI p
  | Coq_xH -> Coq_xO Coq_xH

  (** val coq_lor : positive -> positive -> positive **)

  let rec coq_lor p q =
    match p with
    | Coq_xI p0 ->
      (match q with
       | Coq_xI q0 -> Coq_xI (coq_lor p0 q0)
       | Coq_xO q0 -> Coq_xI (coq_lor p0 q0)
       | Coq_xH -> p)
    | Coq_xO p0 ->
      (match q with
       | Coq_xI q0 -> Coq_xI (coq_lor p0 q0)
       | Coq_xO q0 -> Coq_xO (coq_lor p0 q0)
       | Coq_xH -> Coq_xI p0)
    | Coq_xH -> (match q with
                 | Coq_xO q0 -> Coq_xI q0
                 | _ -> q)

  (** val iter_op : ('a1 -> 'a1 -> 'a1) -> positive -> 'a1 -> 'a1 **)

  let rec iter_op op p a =
    match p with
    | Coq_xI p0 -> op a (iter_op op p0 (op a a))
    | Coq_xO p0 -> iter_op op p0 (op a a)
    | Coq_xH -> a

  (** val to_nat : positive -> nat **)

  let to_nat x =
    iter_op add x (S O)

  (** val of_succ_nat : nat -> positive **)

  let rec of_succ_nat = function
  | O -> Coq_xH
  | S x -> succ (of_succ_nat x)
 end
