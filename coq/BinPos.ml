open BinNums
open Datatypes

module Pos =
 struct
  (** val compare_cont : comparison -> positive -> positive -> comparison **)

  let rec compare_cont r x y =
    match x with
    | Coq_xI p ->
      (match y with
       | Coq_xI q -> compare_cont r p q
       | Coq_xO q -> compare_cont Gt p q
       | Coq_xH -> Gt)
    | Coq_xO p ->
      (match y with
       | Coq_xI q -> compare_cont Lt p q
       | Coq_xO q -> compare_cont r p q
       | Coq_xH -> Gt)
    | Coq_xH -> (match y with
                 | Coq_xH -> r
                 | _ -> Lt)

  (** val compare : positive -> positive -> comparison **)

  let compare =
    compare_cont Eq

  (** val eqb : positive -> positive -> bool **)

  let rec eqb p q =
    match p with
    | Coq_xI p0 -> (match q with
                    | Coq_xI q0 -> eqb p0 q0
                    | _ -> false)
    | Coq_xO p0 -> (match q with
                    | Coq_xO q0 -> eqb p0 q0
                    | _ -> false)
    | Coq_xH -> (match q with
                 | Coq_xH -> true
                 | _ -> false)
 end
