open Datatypes

(** val nth : nat -> 'a1 list -> 'a1 -> 'a1 **)

let rec nth n l default =
  match n with
  | O -> (match l with
          | [] -> default
          | x :: _ -> x)
  | S m -> (match l with
            | [] -> default
            | _ :: t -> nth m t default)
