
(** val forallb : ('a1 -> bool) -> 'a1 list -> bool **)

let rec forallb f = function
| [] -> true
| a :: l0 -> (&&) (f a) (forallb f l0)
