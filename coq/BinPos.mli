open BinNums
open Datatypes
open Nat

module Pos :
 sig
  val succ : positive -> positive

  val coq_lor : positive -> positive -> positive

  val iter_op : ('a1 -> 'a1 -> 'a1) -> positive -> 'a1 -> 'a1

  val to_nat : positive -> nat

  val of_succ_nat : nat -> positive
 end
