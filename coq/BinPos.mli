open BinNums
open Datatypes

module Pos :
 sig
  val compare_cont : comparison -> positive -> positive -> comparison

  val compare : positive -> positive -> comparison

  val eqb : positive -> positive -> bool
 end
